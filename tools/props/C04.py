"""C04 — Content-Length bodies arrive byte-exact under any read fragmentation."""
import itertools
import json
from io import BytesIO

from props.common import FragStream, enc_str, enc_list, Reader, environ

ID = 'C04'
COQ_MODEL = 'model.ReqBody'
COQ_CORR = 'corr_C04_all'
N_QUICK = 1500
N_THOROUGH = 6000
THOROUGH_EXHAUSTIVE = True
RULE = ('cases = corpus + random (data 0..48 bytes, Content-Length below/equal/above the data and negative, '
        'buffer 1..12, fragmentation schedules of short reads, early EOF, optional max_body_size), run through '
        '_body_read directly and through Request.body (read twice, again through request.copy() after a partial read, again after a header is rewritten through Request.__setitem__ following a partial read, with wsgi.input a real io.BytesIO (recording subclass) holding more than the body or with a consumed prefix, and with WSGI extension flags / unrelated headers / other verbs in the environ: wsgi.input_terminated, Transfer-Encoding: identity, Expect, PUT/GET, HTTP/1.0, json/form content types), a fifth of them with a multipart Content-Type (closing delimiter + epilogue: the markup is fed while buffering); a tenth go through Ombott.__call__ with the body read at several points of the life of the request (before_request hook, handler, the generator the handler returned — before and after its first chunk —, after_request hook; a third of them with the extra environ entries; a third also hand the environ, without the ombott.* cache keys, to a second Request as a dispatcher would to an application mounted behind: it must be presented the same body and the server stream must not be read past Content-Length); a seventh of the cases are op sequences on the family of request objects descending from one request by copy() (model/ReqBody.v: body.read(k), copy(), rewrites of Content-Length and of other headers, a new wsgi.input) compared output by output and stream by stream; thorough adds every schedule of length <= 5 over read '
        'caps {1,2,3,full} x body sizes 0..10 x buffers 1..4 x CL in {len-1,len,len+2} (exhaustive). '
        'non-trivial = at least two reads were issued and at least one of them was short or the body spilled; '
        'distinct by (len, cl, buf, schedule prefix actually consumed, via)')
TRUSTED = ['modelled, not verified: the OS temporary file behind the spilled body (content preservation is '
           'checked by the correspondence only); wsgi.input is modelled as coq/model/Stream.v (read returns '
           'b"" only at end of data)']
ASSUMPTIONS = ['buffer size (max_memfile_size) > 0', 'wsgi.input.read(n) returns at most n bytes and b"" only at EOF']


class RecBytesIO(BytesIO):
    """a real io.BytesIO as wsgi.input (servers and test clients hand over buffered bodies this way), recording
    the reads issued on it; `pre` bytes were consumed before the request object saw it (pipelining)"""

    def __init__(self, data, pre):
        super().__init__(bytes(data))
        BytesIO.read(self, pre)
        self.base = pre
        self.log = []

    def read(self, n=-1):
        p = self.tell()
        if n is None or n < 0:
            n = len(self.getvalue()) - p
        self.log.append([n, p - self.base])
        return super().read(n)

    def readline(self, *a):
        raise AssertionError('readline not expected')

    @property
    def pos(self):
        return self.tell() - self.base


MP_BODY = b'--B\r\nContent-Disposition: form-data; name="a"\r\n\r\nv\r\n--B--'


def corpus():
    d20 = list(range(20))
    return [
        # the F4 witness: 20 bytes, buf 8, reads return 3 bytes
        dict(data=d20, cl=20, buf=8, sched=[2] * 12, maxb=None, via='func'),
        dict(data=d20, cl=20, buf=8, sched=[2] * 12, maxb=None, via='request'),
        dict(data=[], cl=0, buf=4, sched=[], maxb=None, via='func'),
        dict(data=[1, 2, 3], cl=-1, buf=4, sched=[], maxb=None, via='func'),
        dict(data=[1, 2, 3], cl=10, buf=2, sched=[0, 0, 0, 0], maxb=None, via='func'),     # early EOF
        dict(data=list(range(30)), cl=7, buf=3, sched=[], maxb=None, via='request'),     # data beyond CL
        dict(data=list(range(9)), cl=9, buf=9, sched=[], maxb=None, via='func'),          # size == buf: no spill
        dict(data=list(range(10)), cl=10, buf=9, sched=[], maxb=None, via='func'),        # spill
        dict(data=list(range(10)), cl=10, buf=4, sched=[0, 5, 1], maxb=6, via='func'),    # over the limit
        # multipart content type: the body must still be ALL Content-Length bytes, epilogue included,
        # wherever the read boundaries fall relative to the closing delimiter
        dict(data=list(MP_BODY + b'\r\nepilogue'), cl=len(MP_BODY) + 10, buf=4096, sched=[len(MP_BODY) - 1], maxb=None,
             via='request', mp=True),
        dict(data=list(MP_BODY + b'\r\n'), cl=len(MP_BODY) + 2, buf=16, sched=[0] * 200, maxb=None, via='func', mp=True),
        # a copy of the request taken after the body was (partly) read presents the same body
        dict(data=d20, cl=20, buf=8, sched=[], maxb=None, via='request', copy_after=7),
        dict(data=d20, cl=20, buf=64, sched=[2, 2], maxb=None, via='request', copy_after=20),
        # WSGI extension flags and unrelated headers do not change which bytes are the body
        dict(data=list(range(30)), cl=7, buf=3, sched=[], maxb=None, via='request', extra='terminated'),
        dict(data=list(range(30)), cl=0, buf=3, sched=[], maxb=None, via='request', extra='terminated'),
        # the application rewrites a header after reading part of the body: the body stays what it was
        dict(data=d20, cl=20, buf=8, sched=[], maxb=None, via='request', reheader=('ctype', 5)),
        dict(data=d20, cl=20, buf=64, sched=[3], maxb=None, via='request', reheader=('same_cl', 20)),
        # wsgi.input is a real io.BytesIO holding MORE than the body / with a consumed prefix
        dict(data=list(range(30)), cl=7, buf=64, sched=[], maxb=None, via='request', bytesio=0),
        dict(data=list(range(30)), cl=7, buf=3, sched=[], maxb=None, via='request', bytesio=4),
        dict(data=list(range(30)), cl=0, buf=8, sched=[], maxb=None, via='request', bytesio=2),
        dict(data=list(range(9)), cl=9, buf=64, sched=[], maxb=None, via='request', bytesio=0, copy_after=3),
        dict(data=list(range(30)), cl=12, buf=8, sched=[], maxb=None, via='func', bytesio=3),
        # through the WSGI application: the body is read at several points of the request's life — in a
        # before_request hook, in the handler, in the generator the handler returned (which runs after _handle has
        # returned), in an after_request hook — and must be the same first Content-Length bytes every time
        dict(data=list(range(40)), cl=34, buf=8, sched=[5, 5], maxb=None, via='app', points=[['handler', 2], ['gen', None]]),
        dict(data=list(range(40)), cl=34, buf=64, sched=[], maxb=None, via='app', points=[['before', None], ['handler', 3], ['gen', None], ['after', None]]),
        dict(data=d20, cl=20, buf=4, sched=[0] * 30, maxb=None, via='app', points=[['gen', 1], ['gen', None]]),
        dict(data=d20, cl=20, buf=4, sched=[], maxb=None, via='app', points=[['after', 5], ['gen', None]]),
        # the body is first touched only after the response has started (second chunk of a streaming handler)
        dict(data=list(range(40)), cl=34, buf=8, sched=[], maxb=None, via='app', points=[['gen_late', None]]),
        dict(data=list(range(20)), cl=20, buf=2, sched=[], maxb=19, via='app', points=[['gen_late', None]], extra='http10'),
        dict(data=list(range(40)), cl=34, buf=8, sched=[], maxb=None, via='app', points=[['before', None], ['handler', 'mount']]),
        dict(data=list(range(40)), cl=34, buf=64, sched=[3, 3], maxb=None, via='app', points=[['handler', 2], ['gen', 'mount'], ['after', None]]),
        dict(data=list(range(40)), cl=34, buf=64, sched=[3, 3], maxb=None, via='app', points=[['gen_late', 4], ['gen_late', None]]),
        # unrelated headers must not change which bytes are the body, through the application too
        dict(data=list(range(40)), cl=34, buf=8, sched=[], maxb=None, via='app', points=[['handler', None]], extra='te_identity'),
        dict(data=list(range(40)), cl=34, buf=8, sched=[], maxb=None, via='app', points=[['gen', None]], extra='terminated'),
        # op sequences on the family of request objects descending from one request by copy()
        # (model/ReqBody.v): ('body', r, k|None) ('copy', r) ('setcl', r, v) ('setother', r, which) ('setinput', r, data, sched)
        dict(data=list(range(1, 8)), cl=5, buf=3, sched=[0, 1], maxb=None, via='ops',
             ops=[('body', 0, 2), ('copy', 0), ('setcl', 0, 2), ('setother', 1, 'ctype'), ('body', 1, None),
                  ('setinput', 1, [9, 9], []), ('body', 1, None), ('body', 0, None)]),
        dict(data=d20, cl=20, buf=8, sched=[2] * 12, maxb=None, via='ops',
             ops=[('copy', 0), ('setother', 0, 'http'), ('body', 1, 7), ('copy', 1), ('body', 2, None), ('body', 1, None)]),
        dict(data=d20, cl=6, buf=8, sched=[], maxb=None, via='ops',
             ops=[('setcl', 0, 9), ('body', 0, 3), ('setcl', 0, 4), ('body', 0, None), ('copy', 0), ('body', 1, None)]),
        # F43 (repaired): a refused read is final — no later access reads on past Content-Length
        dict(data=[97, 98, 99, 100, 71, 69, 84], cl=4, buf=2, sched=[], maxb=3, via='ops',
             ops=[('body', 0, None), ('body', 0, None), ('copy', 0), ('body', 1, 1), ('setother', 0, 'ctype'), ('body', 0, 2)]),
        dict(data=list(range(30)), cl=12, buf=4, sched=[1, 1], maxb=5, via='ops',
             ops=[('body', 0, 3), ('setcl', 0, 2), ('body', 0, None), ('setinput', 0, [7, 7], []), ('body', 0, None)]),
        # record C04_copy_before_first_access_shares_stream_observation: the copy reads what follows the body
        dict(data=list(range(1, 8)), cl=5, buf=3, sched=[0, 1], maxb=None, via='ops',
             ops=[('body', 0, 2), ('handon', 0, None), ('body', 1, None), ('copy', 1), ('handon', 2, 3), ('body', 0, None)]),
        dict(data=d20, cl=20, buf=64, sched=[], maxb=None, via='ops',
             ops=[('handon', 0, None), ('body', 0, None), ('setcl', 0, 7), ('handon', 0, None), ('handon', 1, 2), ('body', 1, None)]),
        dict(data=list(range(30)), cl=12, buf=4, sched=[1, 1], maxb=5, via='ops',
             ops=[('body', 0, None), ('handon', 0, None), ('body', 0, None)]),
        dict(data=list(range(1, 7)), cl=2, buf=4, sched=[], maxb=None, via='ops',
             ops=[('copy', 0), ('body', 0, None), ('body', 1, None)]),
    ]


def gen(rng, n):
    for _ in range(n):
        ln = rng.choice([0, 1, 2, 3, 5, 8, 13, 21, 34, 48]) if rng.random() < 0.5 else rng.randrange(0, 49)
        data = [rng.choice([0, 10, 13, 45, 255, rng.randrange(256)]) for _ in range(ln)]
        r = rng.random()
        if r < 0.5:
            cl = ln
        elif r < 0.7:
            cl = max(0, ln - rng.randrange(1, 6))
        elif r < 0.9:
            cl = ln + rng.randrange(1, 9)
        elif r < 0.95:
            cl = 0
        else:
            cl = -rng.randrange(1, 3)
        buf = rng.randrange(1, 13)
        if rng.random() < 0.2:
            sched = []
        else:
            sched = [rng.choice([0, 0, 1, 2, 3, 7, 20]) for _ in range(rng.randrange(1, 30))]
        maxb = None
        if rng.random() < 0.15:
            maxb = rng.randrange(0, 50)
        case = dict(data=data, cl=cl, buf=buf, sched=sched, maxb=maxb, via=rng.choice(['func', 'request']))
        if rng.random() < 0.15:
            case['via'] = 'ops'
            case['maxb'] = None if rng.random() < 0.6 else rng.choice([0, 1, 3, max(0, ln - 1), ln, ln + 3])
            case['ops'] = _gen_ops(rng, ln)
            yield case
            continue
        if rng.random() < 0.1:
            case['via'] = 'app'
            case['points'] = [[rng.choice(['before', 'handler', 'gen', 'gen_late', 'after']), rng.choice([None, None, 0, 1, 2, ln])]
                              for _ in range(rng.randrange(1, 5))]
            if rng.random() < 0.3:
                case['extra'] = rng.choice(EXTRAS)
            if rng.random() < 0.35:
                case['points'].append([rng.choice(['before', 'handler', 'gen', 'gen_late', 'after']), 'mount'])
            if not any(pt[1] is None for pt in case['points']):
                case['points'].append([rng.choice(['handler', 'gen']), None])
            case['sched'] = case['sched'][:20]
            yield case
            continue
        if case['via'] == 'request' and rng.random() < 0.3:
            case['copy_after'] = rng.choice([0, 1, 3, ln, ln + 5])
        if case['via'] == 'request' and rng.random() < 0.3:
            case['extra'] = rng.choice(EXTRAS)
        if case['via'] == 'request' and rng.random() < 0.25:
            case['reheader'] = (rng.choice(REHEADERS), rng.choice([0, 1, 3, ln, ln + 5]))
        if rng.random() < 0.12:
            # wsgi.input is a real io.BytesIO (recording subclass), possibly with a consumed prefix; full reads
            case['bytesio'] = rng.choice([0, 0, 1, 5])
            case['sched'] = []
        if rng.random() < 0.2:
            # a multipart body (markup is fed while buffering): closing delimiter followed by an epilogue
            ep = bytes(rng.choice([13, 10, 45, 66, 120]) for _ in range(rng.randrange(0, 12)))
            body = MP_BODY + ep
            case['data'] = list(body)
            case['mp'] = True
            case['cl'] = len(body) if rng.random() < 0.7 else max(0, len(body) + rng.randrange(-6, 6))
            if rng.random() < 0.5:
                case['sched'] = [rng.choice([0, 1, 2, len(MP_BODY) - 1, len(MP_BODY), 40]) for _ in range(rng.randrange(1, 80))]
        if case.get('bytesio') is not None:
            case['sched'] = []
        yield case


# environ entries that must not change which bytes are the body of a Content-Length request
EXTRA_ENV = {
    'terminated': {'wsgi.input_terminated': True},
    'te_identity': {'HTTP_TRANSFER_ENCODING': 'identity'},
    'expect': {'HTTP_EXPECT': '100-continue', 'HTTP_CONNECTION': 'keep-alive'},
    'put': {'REQUEST_METHOD': 'PUT'},
    'get': {'REQUEST_METHOD': 'GET'},
    'http10': {'SERVER_PROTOCOL': 'HTTP/1.0', 'wsgi.multithread': False, 'wsgi.run_once': True},
    'ctype_json': {'CONTENT_TYPE': 'application/json'},
    'ctype_form': {'CONTENT_TYPE': 'application/x-www-form-urlencoded; charset=utf-8'},
}
EXTRAS = sorted(EXTRA_ENV)
# header rewrites through Request.__setitem__ after a partial read of the body
REHEADERS = ['ctype', 'same_cl', 'http', 'query', 'method']


def _reheader(rq, kind, case):
    if kind == 'ctype':
        rq['CONTENT_TYPE'] = 'text/plain; rewritten=1'
    elif kind == 'same_cl':
        if 'CONTENT_LENGTH' in rq.environ:
            rq['CONTENT_LENGTH'] = rq.environ['CONTENT_LENGTH']
        else:
            rq['HTTP_X_NO_CL'] = '1'
    elif kind == 'http':
        rq['HTTP_X_REWRITTEN'] = '1'
    elif kind == 'query':
        rq['QUERY_STRING'] = 'a=1'
    elif kind == 'method':
        rq['REQUEST_METHOD'] = 'PUT'


def _gen_ops(rng, ln):
    ops, nreq = [], 1
    read_first = rng.random() < 0.75     # mostly: materialise early, then try to disturb the buffered body
    for i in range(rng.randrange(1, 10)):
        r = rng.randrange(nreq)
        x = rng.random()
        if (i == 0 and read_first) or x < 0.4:
            ops.append(('body', r, rng.choice([None, None, 0, 1, 3, ln, ln + 5])))
        elif x < 0.57:
            ops.append(('copy', r))
            nreq += 1
        elif x < 0.68:
            ops.append(('setcl', r, rng.choice([0, 1, 3, ln, ln + 4, max(0, ln - 2)])))
        elif x < 0.82:
            ops.append(('setother', r, rng.choice(REHEADERS[:1] + REHEADERS[2:])))
        elif x < 0.93:
            # the environ handed to the next consumer; a new request object only when r presents a body by then,
            # which the generator cannot know: indices beyond the family answer 'badreq' on both sides
            ops.append(('handon', r, rng.choice([None, None, 0, 2, ln])))
            nreq += 1
        else:
            d2 = [rng.randrange(256) for _ in range(rng.randrange(0, 12))]
            ops.append(('setinput', r, d2, [rng.choice([0, 1, 4]) for _ in range(rng.randrange(0, 4))]))
    ops.append(('body', rng.randrange(nreq), None))
    return ops


def _run_ops(case):
    from ombott import Request, DefaultConfig
    st = FragStream(case['data'], case['sched'])
    streams = [st]
    env = environ('POST', '/', **{'wsgi.input': st})
    if case['cl'] >= 0:
        env['CONTENT_LENGTH'] = str(case['cl'])
    else:
        env.pop('CONTENT_LENGTH', None)
    from ombott import HTTPError
    cfg = DefaultConfig(dict(max_memfile_size=case['buf'], max_body_size=case['maxb']))
    reqs = [Request(env, config=cfg)]
    outs = []
    for op in case['ops']:
        kind, r = op[0], op[1]
        if r >= len(reqs):
            outs.append(['badreq'])
            continue
        rq = reqs[r]
        if kind == 'body':
            k = op[2]
            try:
                b = rq.body.read() if k is None else rq.body.read(k)
                outs.append(['bytes', list(b)])
            except HTTPError as e:
                outs.append(['err'] if e.status_code == 413 else ['http_%d' % e.status_code])
        elif kind == 'copy':
            reqs.append(rq.copy())
            outs.append(['new', len(reqs) - 1])
        elif kind == 'setcl':
            rq['CONTENT_LENGTH'] = str(op[2])
            outs.append(['unit'])
        elif kind == 'setother':
            _reheader(rq, op[2], case)
            outs.append(['unit'])
        elif kind == 'setinput':
            s2 = FragStream(op[2], op[3])
            streams.append(s2)
            rq['wsgi.input'] = s2
            outs.append(['unit'])
        elif kind == 'handon':
            e0 = rq.environ
            if 'ombott.request.body' not in e0 or 'ombott.request.body_error' in e0:
                outs.append(['notbuf'])
                continue
            rq.body                                     # rewinds the buffered copy
            handed = {kk: v for kk, v in e0.items() if not kk.startswith('ombott.')}
            w = LogReader(handed['wsgi.input'])
            handed['wsgi.input'] = w
            streams.append(w)
            nr = Request(handed, config=cfg)
            reqs.append(nr)
            k = op[2]
            try:
                b = nr.body.read() if k is None else nr.body.read(k)
                outs.append(['bytes', list(b)])
            except HTTPError as e:
                outs.append(['err'] if e.status_code == 413 else ['http_%d' % e.status_code])
    return dict(status='ops', outs=outs, streams=[dict(reqs=s.log, pos=s.pos) for s in streams])


class LogReader:
    """what the next consumer finds under environ['wsgi.input'], with its reads logged like FragStream does"""

    def __init__(self, obj):
        self.obj = obj
        self.log = []
        self.pos = 0

    def _tell(self):
        return self.obj.tell() if hasattr(self.obj, 'tell') else getattr(self.obj, 'pos', 0)

    def read(self, n=-1):
        p0 = self._tell()
        self.log.append([n, self.pos])
        b = self.obj.read(n)
        self.pos += len(b)
        assert p0 >= 0
        return b


def _run_app(case):
    """the body as seen at several points of the request's life inside Ombott.__call__"""
    import ombott
    from ombott import Request
    st = FragStream(case['data'], case['sched'])
    app = ombott.Ombott(dict(max_memfile_size=case['buf'], max_body_size=case['maxb'], catchall=False))
    reads, spill = [], []
    # the generator body runs after _handle returned; 'gen_late' = after its first chunk was handed over
    order = {'before': 0, 'handler': 1, 'after': 2, 'gen': 3, 'gen_late': 4}
    pts = sorted(case['points'], key=lambda pt: order[pt[0]])

    def look(where):
        for w, k in pts:
            if w == where:
                if k == 'mount':
                    # the next consumer of the environ: what a dispatcher hands to an application mounted behind
                    # this one (the CGI/WSGI keys without this application's private 'ombott.*' entries), after the
                    # body was buffered and rewound
                    app.request.body
                    handed = {kk: v for kk, v in app.request.environ.items() if not kk.startswith('ombott.')}
                    inner = Request(handed, config=dict(max_memfile_size=case['buf'], max_body_size=case['maxb']))
                    reads.append([w, None, list(inner.body.read())])
                    continue
                b = app.request.body
                spill.append(not isinstance(b, BytesIO))
                reads.append([w, k, list(b.read() if k is None else b.read(k))])

    app.add_hook('before_request', lambda: look('before'))
    app.add_hook('after_request', lambda: look('after'))

    @app.route('/u', method='POST')
    def handler():
        look('handler')
        if any(w in ('gen', 'gen_late') for w, _ in pts):
            def stream():
                look('gen')
                yield b'do'
                look('gen_late')
                yield b'ne'
            return stream()
        return 'done'
    env = environ('POST', '/u', **{'wsgi.input': st})
    if case.get('extra'):
        env.update({k: v for k, v in EXTRA_ENV[case['extra']].items() if k != 'REQUEST_METHOD'})
    if case['cl'] >= 0:
        env['CONTENT_LENGTH'] = str(case['cl'])
    else:
        env.pop('CONTENT_LENGTH', None)
    got = {}
    try:
        out = app(env, lambda s_, h, e=None: got.setdefault('st', s_))
        body_out = b''.join(out)
        if hasattr(out, 'close'):
            out.close()
    except Exception as e:
        if getattr(e, 'status_code', None) == 413 and got.get('st'):
            # refused on a first access made by the generator after the response had started: the refusal can only
            # travel as the exception the server sees while iterating
            return dict(status='too_large', reqs=st.log, pos=st.pos)
        return dict(status='app raised %s: %s' % (type(e).__name__, str(e)[:80]), reqs=st.log, pos=st.pos)
    if got.get('st', '').startswith('413'):
        return dict(status='too_large', reqs=st.log, pos=st.pos)
    if not got.get('st', '').startswith('200') or body_out != b'done':
        return dict(status='app answered %s %r' % (got.get('st'), body_out[:40]), reqs=st.log, pos=st.pos)
    full = [r for r in reads if r[1] is None]
    whole = bytes(full[0][2]) if full else None
    for w, k, got_b in reads:
        want = whole if k is None else (whole[:k] if whole is not None else None)
        if want is not None and bytes(got_b) != want:
            return dict(status='unstable', first=list(whole), second=got_b, where='%s read(%s)' % (w, k))
    return dict(status='ok', body=list(whole), spilled=any(spill), reqs=st.log, pos=st.pos)


def thorough():
    for L in range(0, 6):
        for sched in itertools.product([0, 1, 2, 99], repeat=L):
            for ln in range(0, 11):
                for buf in range(1, 5):
                    for cl in (ln - 1, ln, ln + 2):
                        if cl < 0:
                            continue
                        yield dict(data=list(range(1, ln + 1)), cl=cl, buf=buf, sched=list(sched), maxb=None,
                                   via='func')


def run_impl(case):
    from ombott.request_pkg.body_mixin import _body_read
    from ombott.request_pkg.errors import BodySizeError
    from ombott import Request, HTTPError
    if case['via'] == 'ops':
        return _run_ops(case)
    if case['via'] == 'app':
        return _run_app(case)
    if case.get('bytesio') is not None:
        # the stream the model sees starts behind the consumed prefix; full reads
        pre = case['bytesio']
        st = RecBytesIO(bytes(range(65, 65 + pre)) + bytes(case['data']), pre)
    else:
        st = FragStream(case['data'], case['sched'])
    if case['via'] == 'func':
        try:
            markup = None
            if case.get('mp'):
                from ombott.request_pkg.multipart import MultipartMarkup
                markup = MultipartMarkup('B')
            body = _body_read(st.read, case['buf'], content_length=case['cl'], max_body_size=case['maxb'],
                              markup=markup)
        except BodySizeError:
            return dict(status='too_large', reqs=st.log, pos=st.pos)
        spilled = not isinstance(body, BytesIO)
        body.seek(0)
        content = body.read()
        return dict(status='ok', body=list(content), spilled=spilled, reqs=st.log, pos=st.pos)
    env = environ('POST', '/', **{'wsgi.input': st})
    if case.get('extra'):
        env.update(EXTRA_ENV[case['extra']])
    if case.get('mp'):
        env['CONTENT_TYPE'] = 'multipart/form-data; boundary=B'
    if case['cl'] >= 0:
        env['CONTENT_LENGTH'] = str(case['cl'])
    else:
        env.pop('CONTENT_LENGTH', None)
        if case['cl'] != -1:
            env['CONTENT_LENGTH'] = str(case['cl'])
    from ombott import DefaultConfig
    cfg = DefaultConfig(dict(max_memfile_size=case['buf'], max_body_size=case['maxb']))
    rq = Request(env, config=cfg)
    try:
        b1 = rq.body
        c1 = b1.read()
        spilled = not isinstance(b1, BytesIO)
        c2 = rq.body.read()          # second access: cached, rewound
        if c1 != c2:
            return dict(status='unstable', first=list(c1), second=list(c2))
        if case.get('copy_after') is not None:
            # the application reads part of the body, then works on a copy of the request
            rq.body.read(case['copy_after'])
            c3 = rq.copy().body.read()
            if c3 != c1:
                return dict(status='unstable', first=list(c1), second=list(c3), where='request.copy()')
        if case.get('reheader') is not None:
            kind, k = case['reheader']
            rq.body.read(k)
            _reheader(rq, kind, case)
            c4 = rq.body.read()
            if c4 != c1:
                return dict(status='unstable', first=list(c1), second=list(c4), where='after rewriting %s' % kind)
    except HTTPError as e:
        return dict(status='too_large' if e.status_code == 413 else 'http_%d' % e.status_code,
                    reqs=st.log, pos=st.pos)
    return dict(status='ok', body=list(c1), spilled=spilled, reqs=st.log, pos=st.pos)


def _enc_op(op):
    kind, r = op[0], op[1]
    if kind == 'body':
        return [0, r, 0 if op[2] is None else 1, op[2] or 0]
    if kind == 'copy':
        return [1, r]
    if kind == 'setcl':
        return [2, r, op[2]]
    if kind == 'setother':
        return [3, r]
    if kind == 'handon':
        return [5, r, 0 if op[2] is None else 1, op[2] or 0]
    return [4, r] + enc_str(op[2]) + enc_list(op[3], lambda k: [k])


def encode(case):
    if case['via'] == 'ops':
        return ([1, case['cl'], case['buf'], 0 if case['maxb'] is None else 1, case['maxb'] or 0]
                + enc_str(case['data']) + enc_list(case['sched'], lambda k: [k]) + enc_list(case['ops'], _enc_op))
    return ([0, case['cl'], case['buf'], 0 if case['maxb'] is None else 1, case['maxb'] or 0]
            + enc_str(case['data']) + enc_list(case['sched'], lambda k: [k]))


def _dec_out(q):
    t = q.int()
    if t == 0:
        return ['bytes', q.str()]
    if t == 1:
        return ['new', q.int()]
    return [{2: 'unit', 3: 'badreq', 4: 'err', 5: 'notbuf'}.get(t, 'model_tag_%d' % t)]


def decode(out, case):
    r = Reader(out)
    if case['via'] == 'ops':
        outs = r.list(_dec_out)
        streams = r.list(lambda q: dict(reqs=q.list(lambda z: [z.int(), z.int()]), pos=q.int()))
        return dict(status='ops', outs=outs, streams=streams)
    tag = r.int()
    if tag == 0:
        sp = r.bool()
        body = r.str()
        reqs = r.list(lambda q: [q.int(), q.int()])
        return dict(status='ok', body=body, spilled=sp, reqs=reqs, pos=r.int())
    if tag in (1, 2):
        reqs = r.list(lambda q: [q.int(), q.int()])
        return dict(status='too_large' if tag == 1 else 'parse_error', reqs=reqs, pos=r.int())
    return dict(status='model_tag_%d' % tag)


def _oracle_ops(case, obs):
    """op sequences: (a) what a request object presents is stable — every access returns a prefix of ONE content,
    until a new wsgi.input is assigned to that object; a copy of an object that already presents a body presents
    the same one; (b) the first access of the history returns the first Content-Length bytes of the server
    stream; (c) when the history starts with an access on the original request, the server stream is never
    touched again and was never read beyond Content-Length."""
    if obs.get('status') != 'ops':
        return 'unexpected outcome %s' % obs
    data = bytes(case['data'])
    content = {}            # request index -> bytes it presents (once known in full) / minimal known prefix
    cl = {0: case['cl']}
    nreq, first_access, disturbed = 1, True, False
    for i, (op, out) in enumerate(zip(case['ops'], obs['outs'])):
        kind, r = op[0], op[1]
        if r >= nreq:
            continue
        if kind == 'body':
            if out[0] == 'err':
                # refused (413): legitimate only under a limit the body exceeds; afterwards the request stays refused
                if case['maxb'] is None:
                    return 'op %d: body refused although no max_body_size is configured' % i
                content[r] = ('refused', b'')
                first_access = False
                continue
            if r in content and content[r][0] == 'refused':
                return 'op %d: request %d was refused earlier and now presents a body' % (i, r)
            got = bytes(out[1]) if out[0] == 'bytes' else None
            if got is None:
                return 'op %d: request.body.read gave %s' % (i, out)
            k = op[2]
            if first_access and not disturbed and case['maxb'] is not None and len(data[:max(cl[r], 0)]) > case['maxb']:
                return 'op %d: a body of %d bytes accepted although max_body_size=%d' % (i, len(data[:max(cl[r], 0)]), case['maxb'])
            if first_access and not disturbed:
                want = data[:max(cl[r], 0)]
                want = want if k is None else want[:k]
                if got != want:
                    return ('op %d: the first body access returned %d bytes, expected the first %d bytes of the '
                            'stream (cut to read(%s))' % (i, len(got), max(cl[r], 0), k))
                content[r] = ('full', data[:max(cl[r], 0)])
            elif r in content:
                mode, c = content[r]
                if mode == 'full':
                    if got != (c if k is None else c[:k]):
                        return ('op %d: request %d presented %r earlier and now read(%s) returns %r'
                                % (i, r, c[:40], k, got[:40]))
                else:   # only a prefix is known so far
                    n = min(len(c), len(got))
                    if got[:n] != c[:n] or (k is not None and len(got) < min(k, len(c))):
                        return 'op %d: request %d returns %r, earlier %r' % (i, r, got[:40], c[:40])
                    if k is None:
                        content[r] = ('full', got)
                    elif len(got) > len(c):
                        content[r] = ('prefix', got)
            else:
                content[r] = ('full', got) if k is None or len(got) < k else ('prefix', got)
            first_access = False
        elif kind == 'copy':
            if r in content:
                content[nreq] = content[r]
            cl[nreq] = cl[r]
            nreq += 1
        elif kind == 'handon':
            if out[0] == 'notbuf':
                continue                    # nothing buffered to hand on: no new object
            if out[0] == 'bytes' and r in content and content[r][0] == 'full':
                want = content[r][1][:max(cl[r], 0)]
                got, k = bytes(out[1]), op[2]
                if got != (want if k is None else want[:k]):
                    return ('op %d: the next consumer of the environ of request %d was presented %r (%d bytes), '
                            'expected the buffered body cut to Content-Length: %r'
                            % (i, r, got[:40], len(got), (want if k is None else want[:k])[:40]))
                content[nreq] = ('full', want)
            elif out[0] == 'err':
                if case['maxb'] is None:
                    return 'op %d: the next consumer was refused although no max_body_size is configured' % i
                content[nreq] = ('refused', b'')
            elif out[0] != 'bytes':
                return 'op %d: the next consumer got %s' % (i, out)
            cl[nreq] = cl[r]
            nreq += 1
        elif kind == 'setcl':
            cl[r] = op[2]
        elif kind == 'setinput':
            content.pop(r, None)
            disturbed = True
    if case['ops'] and case['ops'][0][0] == 'body' and case['ops'][0][1] == 0:
        c0 = max(case['cl'], 0)
        st = obs['streams'][0]
        for n, p in st['reqs']:
            if p + n > c0:
                return 'read(%d) at stream position %d reaches beyond Content-Length %d' % (n, p, c0)
        refused = obs['outs'] and obs['outs'][0][0] == 'err'
        if (st['pos'] > min(c0, len(data))) if refused else (st['pos'] != min(c0, len(data))):
            return 'server stream left at %d, expected %s%d' % (st['pos'], 'at most ' if refused else '', min(c0, len(data)))
    return None


def oracle(case, obs):
    """the property stated directly on the implementation's observable behaviour"""
    if case['via'] == 'ops':
        return _oracle_ops(case, obs)
    data, cl, buf = bytes(case['data']), max(case['cl'], 0), case['buf']
    if obs.get('status') not in ('ok', 'too_large'):
        return 'unexpected outcome %s' % obs
    for n, p in obs['reqs']:
        if p + n > cl:
            return 'read(%d) at stream position %d reaches beyond Content-Length %d' % (n, p, cl)
    if obs['pos'] > cl:
        return 'stream consumed to %d > Content-Length %d' % (obs['pos'], cl)
    want = data[:cl]
    if obs['status'] == 'too_large':
        if case['maxb'] is None or len(want) <= case['maxb']:
            return 'body within the limit rejected as too large'
        return None
    if case['maxb'] is not None and len(want) > case['maxb']:
        return 'body of %d bytes accepted although max_body_size=%d' % (len(want), case['maxb'])
    if bytes(obs['body']) != want:
        return 'body differs: got %d bytes, expected the first %d bytes of the stream' % (len(obs['body']), len(want))
    if obs['spilled'] != (len(want) > buf):
        return 'spooling flag %s for %d bytes with threshold %d' % (obs['spilled'], len(want), buf)
    return None


def nontrivial(case, obs):
    if case['via'] == 'ops':
        kinds = [o[0] for o in case['ops']]
        return kinds.count('body') >= 2 and len(set(kinds)) >= 2
    reqs = obs.get('reqs') or []
    if len(reqs) < 2:
        return False
    # a short read = the next request starts before position + requested size
    short = any(reqs[i + 1][1] < reqs[i][1] + reqs[i][0] for i in range(len(reqs) - 1))
    return short or bool(obs.get('spilled'))


def key(case):
    if case['via'] == 'ops':
        return ('ops', len(case['data']), case['cl'], case['buf'], tuple(case['sched'][:8]),
                tuple(tuple(map(lambda v: tuple(v) if isinstance(v, list) else v, o)) for o in case['ops']))
    return (len(case['data']), case['cl'], case['buf'], tuple(case['sched'][:8]), case['via'], case['maxb'],
            bool(case.get('mp')), case.get('copy_after'), case.get('extra'), case.get('reheader'), case.get('bytesio'),
            json.dumps(case.get('points')))


def classify(case, obs):
    if case['via'] == 'ops':
        kinds = [o[0] for o in case['ops']]
        return 'ops/%s%s%s%s' % ('first-read' if kinds[0] == 'body' else 'passive-prefix',
                                 '+copy' if 'copy' in kinds else '', '+rewrite' if 'setcl' in kinds or 'setother' in kinds else '',
                                 '+newinput' if 'setinput' in kinds else '')
    ln, cl = len(case['data']), case['cl']
    rel = 'cl<0' if cl < 0 else 'cl=len' if cl == ln else 'cl<len' if cl < ln else 'cl>len(early EOF)'
    return '%s%s%s%s/%s/%s/%s' % (case['via'], '+multipart' if case.get('mp') else '',
                                  ('+env:' + case['extra'] if case.get('extra') else '') + ('+BytesIO' if case.get('bytesio') is not None else ''),
                                  '+rewrite:' + case['reheader'][0] if case.get('reheader') else '', rel,
                                  'sched' if case['sched'] else 'full-reads', obs.get('status'))


def shrink(case):
    if case['via'] == 'ops':
        ops = case['ops']
        for i in range(len(ops)):
            rest = ops[:i] + ops[i + 1:]
            if ops[i][0] == 'copy':
                continue        # indices of later requests would shift
            yield dict(case, ops=rest)
        if case['sched']:
            yield dict(case, sched=case['sched'][:-1])
        if len(case['data']) > 1:
            yield dict(case, data=case['data'][:-1])
        return
    d = case['data']
    for i in range(len(d)):
        c = dict(case, data=d[:i] + d[i + 1:])
        if c['cl'] > len(c['data']) >= 0 and case['cl'] == len(d):
            c['cl'] = len(c['data'])
        yield c
    s = case['sched']
    for i in range(len(s)):
        yield dict(case, sched=s[:i] + s[i + 1:])
    if case['buf'] > 1:
        yield dict(case, buf=case['buf'] - 1)
    if case['cl'] > 0:
        yield dict(case, cl=case['cl'] - 1)
    if case['maxb'] is not None:
        yield dict(case, maxb=None)
    if case.get('points') and len(case['points']) > 1:
        for i in range(len(case['points'])):
            yield dict(case, points=case['points'][:i] + case['points'][i + 1:])
    for k in ('copy_after', 'extra', 'reheader', 'mp', 'bytesio'):
        if case.get(k) is not None:
            c = dict(case); c.pop(k); yield c
    if case['via'] not in ('func', 'app') and not (case.get('extra') or case.get('reheader') or case.get('copy_after') is not None):
        yield dict(case, via='func')


PREDICATES = {}

MANIFEST = dict(
    text=('Proof: theorems C04_exact_and_never_beyond and C04_fragmentation_and_buffer_independent (Coq, closed under '
          'the global context) state for ALL data, Content-Length values (any integer), buffer sizes > 0 and '
          'fragmentation schedules that the body is exactly the first Content-Length bytes, the stream is left exactly '
          'after them, and every read request is positive, at most one buffer and never reaches past Content-Length. '
          'C04_translated_loop_exact states the same for the loop as TRANSLATED statement by statement from the '
          'current source of _iter_body on every run (tools/gen_loops.py -> coq/gen/GenLoops.v; proofs/C04_translated.v '
          'proves the translation and the hand-written model agree), so an edit of the loop breaks a proof obligation directly. '
          'The Request-level glue (cached body rewound on every access, wsgi.input replaced by the buffered copy, '
          'Request.copy, Request.__setitem__) is a second model (coq/model/ReqBody.v: op sequences over the family of '
          'request objects descending from one request by copy(), under any max_body_size): C04_first_access_exact (after any copies and header '
          'rewrites the first access on any object returns exactly the first Content-Length bytes and never reads '
          'beyond), C04_cached_body_stable (afterwards every access returns the same body whatever else happens to the '
          'family, and reads no stream), C04_copy_presents_same_body, C04_refusal_marks_request and C04_failed_read_is_final (a refused read is final: later accesses repeat the refusal without touching any stream - the repaired defect F43); C04_only_new_input_drops_buffered_body is proved '
          'about the invalidation table extracted from BaseRequest._on_env_changed on every run; '
          'C04_hand_on_presents_buffered_body, C04_next_consumer_after_first_access and '
          'C04_buffered_copy_presents_same_body_to_next_consumer cover the next consumer of the environ (a mounted WSGI '
          'application, a second Request without the cache keys): it is presented the same body and the buffered copy ends '
          'at byte Content-Length. '
          'The hand-written models (coq/model/Body.v, ReqBody.v) are tied to /repo on every run by a differential correspondence '
          '(extracted OCaml + vm_compute) on _body_read and Request.body, and an independent oracle searches for the '
          'failing input when a tie breaks.'),
    note=('Trusted: Coq kernel + vm_compute; extraction (ExtrOcamlBasic only); the Python harness; the stream model '
          '(read returns b"" only at EOF, never more than asked). Modelled not verified: the OS temporary file used '
          'for spooling.'),
    technique='Coq proof (induction on fuel, closed-form loop invariant; invariant over operation sequences) about a hand-written model AND about the read loop translated from the source on every run + model/implementation correspondence',
    design_ref='DESIGN.md section 4, C04',
)
