"""Shared harness pieces: fragmenting/recording input stream, codec helpers."""
import io


class FragStream:
    """wsgi.input stand-in with the semantics of coq/model/Stream.v:
    read(n) returns min(n, k+1, remaining) bytes, k = next schedule entry
    (absent: full read); every request is logged with the position at which it
    was issued."""

    def __init__(self, data, sched):
        self.data = bytes(data)
        self.sched = list(sched)
        self.pos = 0
        self.log = []

    def read(self, n=-1):
        if n is None or n < 0:
            n = len(self.data) - self.pos
        self.log.append([n, self.pos])
        k = n
        if self.sched:
            k = min(n, self.sched.pop(0) + 1)
        part = self.data[self.pos:self.pos + k]
        self.pos += len(part)
        return part

    def readline(self, *a):
        raise AssertionError('readline not expected')


def enc_str(b):
    b = list(b)
    return [len(b)] + b


def enc_list(items, f):
    out = [len(items)]
    for it in items:
        out.extend(f(it))
    return out


class Reader:
    """decoder for the model's integer output"""

    def __init__(self, ints):
        self.a = ints
        self.i = 0

    def int(self):
        v = self.a[self.i]
        self.i += 1
        return v

    def bool(self):
        return self.int() != 0

    def str(self):
        n = self.int()
        v = self.a[self.i:self.i + n]
        if len(v) != n:
            raise ValueError('short string')
        self.i += n
        return v

    def list(self, f):
        n = self.int()
        return [f(self) for _ in range(n)]

    def done(self):
        return self.i >= len(self.a)


def environ(method='GET', path='/', body=b'', **kw):
    env = {
        'REQUEST_METHOD': method, 'PATH_INFO': path, 'QUERY_STRING': '', 'SERVER_NAME': 'localhost',
        'SERVER_PORT': '80', 'SERVER_PROTOCOL': 'HTTP/1.1', 'wsgi.url_scheme': 'http',
        'wsgi.input': io.BytesIO(body), 'wsgi.errors': io.StringIO(), 'wsgi.version': (1, 0),
        'wsgi.multithread': False, 'wsgi.multiprocess': False, 'wsgi.run_once': False,
        'SCRIPT_NAME': '',
    }
    if body:
        env['CONTENT_LENGTH'] = str(len(body))
    env.update(kw)
    return env
