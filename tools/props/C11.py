"""C11 — the router after any edit history equals a freshly built router."""
import itertools
import re

from props import routerC_lib as L

ID = 'C11'
COQ_MODEL = 'model.Router'
COQ_CORR = 'corr_C11'
N_QUICK = 110
N_THOROUGH = 1200
THOROUGH_EXHAUSTIVE = False
VM_CASES = 6
RULE = ('case = a fresh application and a history of 4..30 operations over a 13-rule / 7-hook / 3-name universe with '
        'shared and split prefixes, wildcard siblings, a filter conflict and hook-only prefixes: add (method subsets, '
        'names, overwrite, duplicates => rejected adds incl. name conflicts that have already inserted the route), '
        'remove by rule / by name / by prefix "*", add SIMPLE and PARTIAL hooks, remove hook, remove_method; after EVERY '
        'operation a probe set (dispatch of paths derived from all rules + mutations through Ombott.to_route and '
        'Ombott.__call__ incl. hooks fired, router[name], router[{rule}], the routes/named_routes/hooks listings) is '
        'compared with the model and — by the oracle — with a fresh real router rebuilt from the surviving indexes. '
        'A separate stream contains inadmissible histories (prefix removal over a hook) for the model tie only. thorough: '
        'all histories to depth 3 over an 8-operation alphabet + longer random ones. non-trivial = the history contains a '
        'removal that prunes or merges nodes followed by a successful lookup, and a hook fired; distinct by history')
TRUSTED = ['section variable filt (as C01); modelled, not verified: Python dict insertion order (association lists), '
           'object identity of Route / hook-list objects (heap of route ids; one shared hook pair per pattern)',
           'admissible histories only: a prefix removal "P*" is applied only when no installed hook pattern properly '
           'extends P']
ASSUMPTIONS = ['prefix removal only when no hook lies under the removed prefix',
               'as C01: no rex selector, distinct wildcard names, ASCII method names']

RULES = ['/a', '/a/b', '/a/b/c', '/a/<x>', '/a/<x>/c', '/ab', '/abc', '/a/<v:int>', '/p/<y:path>/e', '/p/q', '/<z>',
         '/a/b/<w>', '/', '/p/*',        # '/p/*' is a LITERAL rule; remove('/p/*') is the prefix removal of 'p/'
         # _try_merge guards: a wildcard node left with ONE child must not be merged with it (it carries the filter),
         # nor a literal node whose single remaining child is the wildcard node
         '/i/<id:int>/edit', '/i/<id:int>.json', '/m/<x>', '/m/lit', '/m/<x>/k',
         # rules that literally end in '*' and are spelled exactly like a prefix removal, with routes under the prefix
         '/a/*', '/a/b*', '/p/<y:path>*',
         # rex filters with a [n] selector (pattern '\\r1' ...): registration, removal, lookup by rule/name and listings
         # only — no probe path leads to their node (the selector's path rewriting is outside the model)
         '/r/<x.rex((a)|(b))[1]>', '/r/<x.rex((a)|(b))[2]>/z',
         # non-ASCII literal text (sent as UTF-8 bytes in latin-1 clothing through WSGI)
         '/café/<x>', '/café',
         # slashes at the ends of the rule text are pattern text like any other ('a/b/', 'a/<x>/', 'ab//'): such a
         # rule is registered, listed, named, found and removed under that pattern (no request path can match it)
         # (a doubled LEADING slash is refused by an assert in RadiRouter._match: not in the universe)
         '/a/b/', '/a/<x>/', '/ab//']
MERGE_FAMILY = ['/i/<id:int>/edit', '/i/<id:int>.json', '/m/<x>', '/m/lit', '/m/<x>/k', '/a/<x>/c', '/a/<x>', '/a/b']
ALT = {'/a/<x>': '/a/<x2>', '/a/<x>/c': '/a/:k/c', '/<z>': '/{zz}'}        # same pattern, other names
HOOKS = ['/a', '/a/b', '/a/<x>', '/p', '/a/b/c/d', '/ab', '/', '/café', '/r/<x.rex((a)|(b))[1]>', '/a/b/']
PREFIXES = ['/a/*', '/a*', '/a/b*', '/*', '/p/*', '/ab*', '/a/b/*', '/zz*', '/a/*', '/p/*']
NAMES = ['n1', 'n2', 'n3']
PATHS = ['/a/b/', '/ab//', '/a/é/c', '/a/é', '/a/é/zz', '/café/ü', '/café', '/cafe/x', '/a/*', '/a/b*', '/a', '/a/b', '/a/b/c', '/a/q', '/a/q/c', '/a/12', '/ab', '/abc', '/abd', '/p/q', '/p/x/y/e', '/p', '/zz', '/',
         '/a/b/c/d', '/a/b/zz', '/a//c', '/a/b/', '/a/\r/c', '/p/*',
         '/i/5/edit', '/i/5.json', '/i/x/edit', '/i/5', '/m/lit', '/m/zz', '/m/zz/k']


def _pat(rule):
    return re.sub(r'<[^>]*>|\{[^}]*\}|:\w*', '\r', rule[1:])


ITER_PREFIXES = ['', 'a', 'a/', 'a/b', 'a/\r', 'p/', 'i/\r', 'm/', 'zz', 'ab', 'a/b/c/d/e']
KEY_FORMS = ['set', 'dict', 'routekey', 'pattern', 'routekey_pattern']


def _probe_set(rng=None, full=False):
    paths = PATHS if full or rng is None else rng.sample(PATHS, 7)
    cmds = []
    for p in paths:
        cmds.append(dict(op='dispatch', path=p, verb='GET'))
        if full or (rng is not None and rng.random() < 0.25):
            cmds.append(dict(op='dispatch', path=p, verb='POST'))
        if full or (rng is not None and rng.random() < 0.15):
            cmds.append(dict(op='resolve_route', path=p))                    # resolve(path) -> Route
    for n in NAMES:
        cmds.append(dict(op='by_name', name=n))
    rules = RULES + list(ALT.values()) if full or rng is None else rng.sample(RULES, 4)
    for k, r in enumerate(rules):
        form = KEY_FORMS[k % len(KEY_FORMS)] if full or rng is None else rng.choice(KEY_FORMS)
        cmds.append(dict(op='by_rule', rule=r, form=form))                   # every form router[...] accepts
    for r in (HOOKS if full or rng is None else rng.sample(HOOKS, 2)):
        cmds.append(dict(op='get_hook', rule=r))
    for r in (['/a', '/a/b', '/m/<x>'] if full or rng is None else rng.sample(RULES, 1)):
        cmds.append(dict(op='call_route', rule=r, verb='GET'))               # Route.__call__
    for sw in (ITER_PREFIXES if full or rng is None else rng.sample(ITER_PREFIXES, 2)):
        cmds.append(dict(op='iter', startswith=sw, yield_hooks=bool(len(sw) % 2) if (full or rng is None) else rng.random() < 0.5))
    cmds.append(dict(op='listing'))
    return cmds


def _with_probes(ops, rng=None, full=False):
    cmds = []
    for o in ops:
        cmds.append(o)
        cmds += _probe_set(rng, full)
    return dict(cmds=cmds)


# hook-only LEAVES (no route at or below them): after remove_route_hook the node is pruned like a removed route, so the
# position is free again for ANOTHER filter / other text, as in a router that never saw the hook
HL_LEAVES = ['/item/<id:int>', '/item/<id>', '/item/<id:float>', '/item/<p:path>', '/item/new', '/item/<id:int>/log',
             '/item/<id:int>.json', '/item']
HL_LATER = ['/item/<slug>', '/item/<s:re:[a-z]+>', '/item/<f:float>', '/item/<id:int>/x', '/item/<q:path>/end', '/item/new', '/it']
HL_PATHS = ['/item/5', '/item/abc', '/item/2.5', '/item/5/log', '/item/5/x', '/item/a/b/end', '/item/new', '/item', '/it', '/item/5.json']


def _hook_leaf_case(leaf, later, later_hook, partial=False, sibling=None, again=None):
    A = lambda rule, h=1: dict(op='add', rule=rule, methods=['GET'], h=h)
    ops = ([A(sibling, 9)] if sibling else []) + [
        dict(op='add_hook', rule=leaf, h=50, partial=partial), dict(op='remove_hook', rule=leaf),
        dict(op='add_hook', rule=later, h=51) if later_hook else A(later, 2)]
    if again:
        ops += [A(again, 3)]
    probes = ([dict(op='dispatch', path=p, verb='GET') for p in HL_PATHS] + [dict(op='listing'), dict(op='iter', startswith='item')])
    cmds = []
    for o in ops:
        cmds += [o] + probes
    return dict(cmds=cmds, oracle_from=1)       # oracle_from: the fresh-router comparison also runs on this case's own probes


def _hook_leaf_corpus():
    out = []
    for i, leaf in enumerate(HL_LEAVES):
        for j, later in enumerate(HL_LATER):
            if (i + j) % 2 == 0 or leaf == later:
                continue
            out.append(_hook_leaf_case(leaf, later, later_hook=(i + 2 * j) % 3 == 0, partial=(i + j) % 5 == 0,
                                       sibling=[None, '/other', '/it'][(i * 3 + j) % 3], again=leaf if j % 3 == 0 else None))
    return out


def corpus():
    A = lambda rule, h=1, ms=('GET',), **kw: dict(op='add', rule=rule, methods=list(ms), h=h, **kw)
    cs = []
    cs += _hook_leaf_corpus()
    # F14 witnesses
    cs.append(_with_probes([dict(op='add_hook', rule='/a/b', h=50), A('/a/b/c'), dict(op='remove', rule='/a/b/c'),
                            A('/a/b/c', 2)], full=True))
    cs.append(_with_probes([dict(op='add_hook', rule='/a/b', h=50), A('/a/b/c'), dict(op='remove_hook', rule='/a/b'),
                            A('/a/b', 3)], full=True))
    cs.append(_with_probes([dict(op='add_hook', rule='/a/b/c/d', h=51), A('/a/b/c'), dict(op='remove', rule='/a/b/c'),
                            A('/a/b/c/d', 4)], full=True))
    # F15 witness
    cs.append(_with_probes([A('/a', 1, name='n1'), A('/a', 2, ('POST',), name='n2'), dict(op='remove_name', name='n1'),
                            A('/a', 3, name='n3')], full=True))
    # a registration rejected by the method table (second verb taken) writes nothing, not even its first verb
    cs.append(_with_probes([A('/a', 1), A('/a', 2, ('PUT', 'GET')), A('/a', 3, ('POST', 'PUT')),
                            dict(op='route_method', rule='/a', methods=['DELETE', 'GET'], h=4)], full=True))
    # rejected add for a name conflict has already inserted the route
    cs.append(_with_probes([A('/a', 1, name='n1'), A('/ab', 2, name='n1'), A('/ab', 3), dict(op='remove', rule='/a')],
                           full=True))
    # split, prune and merge
    cs.append(_with_probes([A('/abc', 1), A('/ab', 2), A('/a', 3), dict(op='remove', rule='/ab'),
                            dict(op='remove', rule='/a'), A('/abd', 4), dict(op='remove', rule='/abc')], full=True))
    # prefix removals (exact node, inside a key, everything)
    cs.append(_with_probes([A('/a/b/c', 1), A('/a/b', 2), A('/ab', 3), A('/a/<x>', 4, name='n2'),
                            dict(op='remove', rule='/a/*'), A('/a/b', 5), dict(op='remove', rule='/a*'),
                            A('/p/q', 6), dict(op='remove', rule='/*')], full=True))
    # hooks: simple and partial on one pattern, update in place, remove, 404 partial hook
    cs.append(_with_probes([dict(op='add_hook', rule='/a', h=50), dict(op='add_hook', rule='/a', h=51, partial=True),
                            A('/a/b', 1), dict(op='add_hook', rule='/a', h=52), dict(op='add_hook', rule='/', h=53),
                            dict(op='remove_hook', rule='/a'), dict(op='remove_hook', rule='/a/*')], full=True))
    # F33 witness: a route whose rule ends in '*' removed by name is removed exactly; by rule it is the prefix removal
    cs.append(_with_probes([A('/p/q', 1), A('/p/*', 2, name='n1'), A('/p/<y:path>/e', 3), dict(op='remove_name', name='n1'),
                            A('/p/*', 4, name='n2'), dict(op='remove', rule='/p/*'), A('/p/q', 5)], full=True))
    # _try_merge guards: two rules through one filtered wildcard, nothing AT the wildcard; remove one of them -> the
    # wildcard node keeps its filter (never merged with its remaining child); and a literal node whose only remaining
    # child is the wildcard node
    cs.append(_with_probes([A('/i/<id:int>/edit', 1), A('/i/<id:int>.json', 2), dict(op='remove', rule='/i/<id:int>.json'),
                            A('/m/<x>', 3), A('/m/lit', 4), dict(op='remove', rule='/m/lit'),
                            A('/m/<x>/k', 5), dict(op='remove', rule='/m/<x>'), dict(op='remove', rule='/i/<id:int>/edit')],
                           full=True))
    # 140 distinct filter specs are created (and their rules removed by prefix) between registering a filtered rule
    # and using it again: the filter object of the surviving rule must still be THE filter of its spec
    # (identity is what _match compares; a bounded / re-keyed cache would hand out a new object)
    many = [A('/keep/<v:int>', 1)] + [A('/t%d/<x:re:a%d>' % (i, i), 2) for i in range(140)]
    tail = [dict(op='remove', rule='/t*'), A('/keep/<v:int>', 3, ('POST',)), dict(op='by_rule', rule='/keep/<v:int>'),
            dict(op='dispatch', path='/keep/5', verb='POST'), dict(op='dispatch', path='/keep/x', verb='GET'),
            dict(op='listing')]
    cs.append(dict(cmds=many + tail, oracle_from=141))
    # a registered rule that is spelled exactly like a prefix removal: remove('/a/*') still removes the whole branch
    # (/a/b, /a/<x>, /a/b/c and the literal '/a/*' itself), remove('/a/b*') likewise; names of removed routes go too
    cs.append(_with_probes([A('/a/b', 1), A('/a/*', 2, name='n1'), A('/a/<x>', 3, name='n2'), A('/a/b/c', 4), A('/ab', 5),
                            dict(op='remove', rule='/a/*'), A('/a/b', 6), A('/a/b*', 7), A('/a/b/c', 8, name='n3'),
                            dict(op='remove', rule='/a/b*'), A('/p/q', 9), A('/p/*', 10), dict(op='remove', rule='/p/*')],
                           full=True))
    # rules written with a trailing slash: registered, found and removed under the rule as written
    cs.append(_with_probes([A('/a/b/', 1, name='n1'), A('/a/b', 2, name='n2'), A('/a/<x>/', 4), A('/ab//', 5),
                            dict(op='add_hook', rule='/a/b/', h=50),
                            dict(op='by_rule', rule='/a/b/'), dict(op='remove', rule='/a/b/'), dict(op='by_rule', rule='/a/b'),
                            dict(op='remove_hook', rule='/a/b/'),
                            dict(op='remove_obj', rule='/a/<x>/'), dict(op='remove', rule='/ab//'), A('/a/b/', 6, name='n2')], full=True))
    # nested route hooks that RETURN values (True, the prefix, a counter): every hook fires, then the route callback
    cs.append(_with_probes([dict(op='add_hook', rule='/', h=50), dict(op='add_hook', rule='/a', h=52), dict(op='add_hook', rule='/a/b', h=53),
                            A('/a/b/c', 1), A('/a/b', 2), dict(op='add_hook', rule='/a/<x>', h=54), A('/a/<x>/c', 3)], full=True))
    # rex rules with a selector can be removed / found by their rule text and by name; their hooks too
    cs.append(_with_probes([A('/r/<x.rex((a)|(b))[1]>', 1, name='n1'), A('/r/<x.rex((a)|(b))[2]>/z', 2),
                            dict(op='add_hook', rule='/r/<x.rex((a)|(b))[1]>', h=50), A('/a/b', 3),
                            dict(op='remove', rule='/r/<x.rex((a)|(b))[1]>'),
                            dict(op='remove_hook', rule='/r/<x.rex((a)|(b))[1]>'),
                            dict(op='remove_obj', rule='/r/<x.rex((a)|(b))[2]>/z')], full=True))
    # hooks on paths with non-ASCII text before the hook position: the hook receives the decoded prefix
    cs.append(_with_probes([dict(op='add_hook', rule='/a/<x>', h=50), dict(op='add_hook', rule='/café', h=51),
                            dict(op='add_hook', rule='/a/<x>', h=52, partial=True), A('/a/<x>/c', 1), A('/café/<x>', 2),
                            A('/a/<x>', 3)], full=True))
    # wildcard siblings, filter conflict, shared pattern with other names, method removal
    cs.append(_with_probes([A('/a/<x>', 1), A('/a/<v:int>', 2), A('/a/<x2>', 3, ('POST',)), A('/a/b', 4),
                            dict(op='remove_method', rule='/a/<x>', methods=['GET']), dict(op='remove', rule='/a/<x2>'),
                            A('/a/<v:int>', 5)], full=True))
    return cs


def _gen_ops(rng, n, admissible=True):
    ops = []
    hooks = set()           # hook patterns believed installed
    for _ in range(n):
        r = rng.random()
        if r < 0.38:
            rule = rng.choice(RULES if rng.random() < 0.75 else MERGE_FAMILY)
            prev = [o for o in ops if o['op'] == 'add']
            if prev and rng.random() < 0.3:
                rule = prev[-1]['rule']          # same route again: another method / another NAME (aliases)
            if rule in ALT and rng.random() < 0.3:
                rule = ALT[rule]
            ms = rng.choice([['GET'], ['GET'], ['POST'], ['GET', 'POST'], ['ANY'], ['get'], ['PUT', 'GET'], ['DELETE', 'POST']])
            ops.append(L.vary_add(rng, dict(op='add', rule=rule, methods=ms, h=rng.randrange(1, 9),
                                            name=rng.choice([None, None] + NAMES), overwrite=rng.random() < 0.25)))
        elif r < 0.55:
            added = [o['rule'] for o in ops if o['op'] == 'add']
            rule = rng.choice(added) if added and rng.random() < 0.5 else rng.choice(RULES)
            # by rule text, or by the Route object found under that rule
            ops.append(dict(op='remove' if rng.random() < 0.75 else 'remove_obj', rule=rule))
        elif r < 0.63:
            pre = rng.choice(PREFIXES)
            P = _pat(pre)[:-1]
            if admissible and any(h.startswith(P) and h != P for h in hooks):
                continue
            if not admissible or True:
                hooks = {h for h in hooks if not (h.startswith(P) and h != P)}
            ops.append(dict(op='remove', rule=pre))
        elif r < 0.70:
            ops.append(dict(op='remove_name', name=rng.choice(NAMES)))
        elif r < 0.85:
            rule = rng.choice(HOOKS)
            ops.append(L.vary_hook(rng, dict(op='add_hook', rule=rule, h=50 + rng.randrange(6), partial=rng.random() < 0.25)))
            hooks.add(_pat(rule))
        elif r < 0.94:
            rule = rng.choice(HOOKS)
            ops.append(dict(op='remove_hook', rule=rule))
            hooks.discard(_pat(rule))
        elif r < 0.97:
            ops.append(dict(op='remove_method', rule=rng.choice(RULES), methods=[rng.choice(['GET', 'POST', 'ANY'])]))
        else:
            ops.append(dict(op='route_method', rule=rng.choice(RULES), methods=rng.choice([['PUT'], 'get', ['GET', 'PUT']]),
                            h=rng.randrange(1, 9), overwrite=rng.random() < 0.5))
    return ops


def gen(rng, n):
    n_in = max(1, n // 15)
    for _ in range(n - n_in):
        if rng.random() < 0.15:
            leaf = rng.choice(HL_LEAVES)
            yield _hook_leaf_case(leaf, rng.choice([x for x in HL_LATER if x != leaf]), rng.random() < 0.3, rng.random() < 0.25,
                                  rng.choice([None, '/other', '/it', '/item']), rng.choice([None, None, leaf]))
            continue
        c = _with_probes(_gen_ops(rng, rng.choice([4, 6, 8, 10, 14, 20, 30])), rng)
        if rng.random() < 0.1:
            # another application edited in between: nothing of it may show in this one
            c['twin'] = [o for o in _gen_ops(rng, 8)] + [dict(op='dispatch', path='/a/b', verb='GET')]
        yield c
    for _ in range(n_in):
        c = _with_probes(_gen_ops(rng, rng.choice([6, 10, 16]), admissible=False), rng)
        c['inadmissible_stream'] = True
        yield c


def thorough():
    A = lambda rule, h=1, **kw: dict(op='add', rule=rule, methods=['GET'], h=h, **kw)
    alpha = [A('/a/b/c', 1), A('/a/b', 2, name='n1'), A('/a/<x>', 3), dict(op='remove', rule='/a/b/c'),
             dict(op='remove', rule='/a/b'), dict(op='add_hook', rule='/a/b', h=50), dict(op='remove_hook', rule='/a/b'),
             dict(op='remove', rule='/a/*')]
    for k in (1, 2, 3):
        for ops in itertools.product(alpha, repeat=k):
            # keep it admissible: no prefix removal while the hook /a/b may be installed
            inst = False
            ok = True
            for o in ops:
                if o['op'] == 'add_hook':
                    inst = True
                elif o['op'] == 'remove_hook':
                    inst = False
                elif o['op'] == 'remove' and o['rule'].endswith('*') and inst:
                    ok = False
            if ok:
                yield dict(cmds=[c for o in ops for c in [o]] + _probe_set(full=True))


def run_impl(case):
    return L.run_script(case)


def project(obs, case):
    return L.strip(obs)


def encode(case):
    return L.encode(case)


def decode(out, case):
    return L.decode(out, case)


MUTATING = ('add', 'remove', 'remove_name', 'add_hook', 'remove_hook', 'remove_method', 'remove_obj', 'route_method')


def _fresh_from(a, ctx, hook_rule):
    """a fresh real application built from the surviving indexes of application a"""
    from ombott.router.radirouter import HookTypes
    f = L.App(ctx)
    f.fn, f.fn_id, f.box = a.fn, a.fn_id, a.box
    src = a.app.router
    dst = f.app.router
    filler = a.handler(0)

    def text_for(pattern, filters, names):
        for rule, (p, nm, fl) in ctx.parsed.items():
            if p == pattern and nm == list(names):
                real = ctx.Route.parse_rule(rule)[2]
                if len(real) == len(filters) and all(x is y for x, y in zip(real, filters)):
                    return rule
        return None
    for pattern, route in src.routes.items():
        dst.add(route.rule, [], filler)
        for m, rm in route._methods.items():
            if rm.params is None or m != m.upper():
                # registered through the Route API directly (no names, no upper-casing)
                dst.routes[pattern].set_method(m, rm.handler, rm.meta)
                continue
            names = rm.params if rm.params else route.params
            rule = route.rule if list(names) == list(route.params) else text_for(pattern, route.filters, names)
            if rule is None:
                return None, 'no rule text for %r with names %s' % (pattern, names)
            dst.add(rule, [m], rm.handler, meta=rm.meta, overwrite=True)
    for name, route in src.named_routes.items():
        if src.routes.get(route.pattern) is not route:
            return None, 'name %r points to a route (%s) that is not registered any more' % (name, route.rule)
        dst.add(route.rule, [], filler, name, overwrite=True)
    for pattern, hp in src.hooks.items():
        rule = hook_rule.get(pattern)
        if rule is None:
            return None, 'no rule text for hook pattern %r' % pattern
        if hp[0] is not None:
            dst.add_hook(rule, hp[0])
        if hp[1] is not None:
            dst.add_hook(rule, hp[1], hook_type=HookTypes.PARTIAL)
    return f, None


def _expected_hooks(router, route, sp, path):
    """hooks index entries whose pattern is a prefix of the matched route's pattern, outermost first, with the
    path prefix each one is called with"""
    out = []
    for hp_pattern, hp in router.hooks.items():
        if hp[0] is None or not route.pattern.startswith(hp_pattern):
            continue
        k = hp_pattern.count('\r')
        # position after matching the hook's pattern as a prefix of the path
        i, L_, fi = 0, len(sp), 0
        ok = True
        for ch in hp_pattern:
            if ch != '\r':
                if i < L_ and sp[i] == ch:
                    i += 1
                else:
                    ok = False
                    break
            else:
                f = route.filters[fi]
                fi += 1
                if i >= L_:
                    ok = False
                    break
                if f is None:
                    j = sp.find('/', i)
                    i = L_ if j < 0 else j
                else:
                    v, n, _s = f(sp[i:])
                    if v is None:
                        ok = False
                        break
                    i += n
        if not ok:
            return None
        out.append((len(hp_pattern), i, hp[0]))
        del k
    out.sort(key=lambda t: t[0])
    rp = '/' + path.lstrip('/')
    return [(rp[:1 + i], fn) for _l, i, fn in out]


def oracle(case, obs):
    try:
        return L.traced(_oracle, case, obs)
    except Exception as e:           # every call into the implementation ends as an observation, never as a crash
        import traceback
        tb = traceback.extract_tb(e.__traceback__)
        where = ['%s:%d %s' % (fr.filename.rsplit('/', 1)[-1], fr.lineno, fr.name) for fr in tb[-3:]]
        return 'the oracle\'s own use of the implementation (replay / fresh router) raised %s: %s [%s]' % (
            type(e).__name__, str(e)[:200], '; '.join(where))


def _api_misuse(router):
    """the documented failure modes of RadiRouter.__getitem__ / RouteKey / hook_installer"""
    from ombott.router.radirouter import RouteKey
    for bad, exc in (({'/a', '/b'}, TypeError), (5, TypeError), (['/a'], TypeError),
                     ({'rule': '/a', 'pattern': 'a'}, TypeError)):
        try:
            router[bad]
        except exc:
            continue
        except Exception as e:
            return 'router[%r] raised %s, documented: %s' % (bad, type(e).__name__, exc.__name__)
        return 'router[%r] did not raise' % (bad,)
    try:
        RouteKey('/a', pattern='a')
        return 'RouteKey(rule, pattern) did not raise'
    except TypeError:
        pass
    try:
        router.hook_installer(None, lambda p: None, 2)
        return 'hook_installer accepted hook type 2'
    except ValueError:
        pass
    if router['no-such-name'] is not None:
        return 'router[unknown name] is not None'
    return None


def _oracle(case, obs):
    if case.get('inadmissible_stream'):
        return None
    ctx = L.Ctx(case)
    for r in RULES + HOOKS + list(ALT.values()):
        ctx.parse(r)
    a = L.App(ctx)
    probes = [p for p in _probe_set(full=True)
              if not (p['op'] == 'dispatch' and p['verb'] == 'POST' and p['path'] not in ('/a/q', '/a', '/a/b/c'))
              and not (p['op'] == 'resolve_route' and p['path'] not in ('/a/q', '/i/5.json', '/m/zz', '/'))
              and not (p['op'] == 'iter' and p.get('startswith') not in ('', 'a/', 'i/\r'))]
    hook_rule = {}       # hook pattern -> the rule text that installed it (its filters are the tree's)
    bad = _api_misuse(a.app.router)
    if bad:
        return bad
    n_mut = 0
    if case.get('oracle_from'):
        probes = probes + [c for c in case['cmds'] if c['op'] not in MUTATING]
    for c in case['cmds']:
        if c['op'] not in MUTATING:
            continue
        n_mut += 1
        router = a.app.router
        if c['op'] == 'remove' and c['rule'].endswith('*'):
            P = router.to_pattern(c['rule'])[:-1]
            if any(h.startswith(P) and h != P for h in router.hooks):
                return None            # inadmissible from here on: outside the property
        before = a.run(dict(op='listing')) if c['op'] in ('add', 'route_method', 'add_hook', 'remove') else None
        res = a.run(c)
        if c['op'] == 'remove' and res == 0:
            # the documented meaning of remove(rule): a rule text ending in '*' removes EVERY route whose pattern starts
            # with the text before the '*' (also when that very text is itself a registered rule); any other rule text
            # removes exactly the route of that pattern; all other routes, and the names of surviving routes, stay
            pat = ctx.parse(c['rule'])[0]                    # Route.parse_rule: what the registration used
            if router.to_pattern(c['rule']) != pat:
                return 'to_pattern(%r) = %r but the rule is registered under %r' % (c['rule'], router.to_pattern(c['rule']), pat)
            star = pat.endswith('*')
            gone = (lambda q: q.startswith(pat[:-1])) if star else (lambda q: q == pat)
            s_ = lambda xs: ''.join(map(chr, xs))
            after = a.run(dict(op='listing'))
            want_routes = [s_(r[0]) for r in before['routes'] if not gone(s_(r[0]))]
            got_routes = [s_(r[0]) for r in after['routes']]
            if got_routes != want_routes:
                return 'after %s the routes index lists %s, expected %s (%s)' % (
                    _show(c), got_routes, want_routes,
                    'every pattern starting with %r removed' % pat[:-1] if star else 'only %r removed' % pat)
            want_names = [s_(n[0]) for n in before['named'] if not gone(s_(n[1]['pattern']))]
            got_names = [s_(n[0]) for n in after['named']]
            if got_names != want_names:
                return 'after %s the names are %s, expected %s' % (_show(c), got_names, want_names)
        if c['op'] in ('add', 'add_hook') and res == 0:
            # an accepted registration is filed under the pattern of the rule AS WRITTEN (Route.parse_rule), which is the
            # key remove(rule) / router[{rule}] / add_hook(rule) / remove_hook(rule) derive from the same text
            pat = ctx.parse(c['rule'])[0]
            s_ = lambda xs: ''.join(map(chr, xs))
            after = a.run(dict(op='listing'))
            kind = 'routes' if c['op'] == 'add' else 'hooks'
            had = [s_(r[0]) for r in before[kind]]
            got = [s_(r[0]) for r in after[kind]]
            if sorted(got) != sorted(set(had) | {pat}):
                return 'after the accepted %s the %s index lists %s, expected %s plus %r' % (_show(c), kind, got, had, pat)
            if c['op'] == 'add' and c.get('name'):
                to = [s_(n[1]['pattern']) for n in after['named'] if s_(n[0]) == c['name']]
                if to != [pat]:
                    return 'after the accepted %s the name %r leads to %s, expected %r' % (_show(c), c['name'], to, pat)
        if before is not None and res in (1, 2, 3, 4, 5, 8):
            # refused by the tree (filter conflict ...) or by the method table: the check runs before any write
            after = a.run(dict(op='listing'))
            if L_canon(after) != L_canon(before):
                return 'after the REJECTED %s (error %s) the indexes changed: %s -> %s' % (
                    _show(c), res, _short(_listing_diff(before, after)), '')
        if c['op'] in ('add', 'add_hook') and res == 1:
            # refused for a filter mismatch: a router freshly built from what is registered must refuse it too (no filter
            # may linger at a position nothing registered uses any more)
            f0, why0 = _fresh_from(a, ctx, hook_rule)
            if f0 is not None and f0.run(c) == 0:
                return '%s is refused (filter mismatch) but a fresh router built from the surviving routes/hooks accepts it' % _show(c)
        if c['op'] == 'add_hook' and res == 0:
            hook_rule.setdefault(router.to_pattern(c['rule']), c['rule'])
        elif c['op'] == 'remove_hook' and res == 0:
            hook_rule.pop(router.to_pattern(c['rule']), None)
        if n_mut < case.get('oracle_from', 0):
            continue                # long set-up phase of a corpus case: the fresh-router comparison starts later
        f, why = _fresh_from(a, ctx, hook_rule)
        if f is None:
            return 'after %s: %s' % (_show(c), why)
        for p in probes:
            x = a.run(p)
            y = f.run(p)
            if L_canon(x) != L_canon(y):
                return 'after %s: %s answers %s but a fresh router built from the surviving routes/hooks answers %s' % (
                    _show(c), _show(p), _short(x), _short(y))
            if p['op'] == 'dispatch' and x['direct'].get('kind') == 200:
                # hooks fire exactly for the hook rules the matched rule extends, outermost first
                ep, _err = a.app.to_route('/' + p['path'].lstrip('/'), p['verb'])
                route = ep[0].route
                exp = _expected_hooks(router, route, p['path'].strip('/'), p['path'])
                got = [(''.join(map(chr, cc[2])), cc[1]) for cc in x['wsgi']['calls'] if cc[0] == 'hook']
                if x['wsgi'].get('status') != 200 or not x['wsgi']['calls'] or x['wsgi']['calls'][-1][0] != 'handler':
                    # whatever the hooks return, the route callback runs last and its answer is the response
                    return 'after %s: %s has a route and a handler but through WSGI: %s' % (_show(c), _show(p), _short(x['wsgi']))
                if exp is None or [(s, a.hid_of(fn)) for s, fn in exp] != got:
                    return 'after %s: %s fired hooks %s, expected %s' % (
                        _show(c), _show(p), got, None if exp is None else [(s, a.hid_of(fn)) for s, fn in exp])
    return None


def _listing_diff(b, a):
    out = []
    for k in ('routes', 'named', 'hooks'):
        if L_canon(b[k]) != L_canon(a[k]):
            out.append((k, [x for x in a[k] if x not in b[k]], [x for x in b[k] if x not in a[k]]))
    return out


def L_canon(x):
    import json
    return json.dumps(x, sort_keys=True, default=repr)


def _show(c):
    return {k: v for k, v in c.items() if v not in (None, False)}


def _short(x):
    return str(x)[:260]


def nontrivial(case, obs):
    cmds = case['cmds']
    removed = False
    looked = False
    fired = False
    for c, o in zip(cmds, obs):
        if c['op'] in ('remove', 'remove_name', 'remove_hook') and o == 0:
            removed = True
        if c['op'] == 'dispatch' and isinstance(o, dict):
            if removed and o['direct'].get('kind') == 200:
                looked = True
            if any(x[0] in ('hook', 'partial') for x in o['wsgi'].get('calls', [])):
                fired = True
    return removed and looked and fired


def key(case):
    return tuple((c['op'], c.get('rule'), c.get('name'), tuple(c.get('methods') or ()), c.get('h'))
                 for c in case['cmds'] if c['op'] in MUTATING)


def classify(case, obs):
    n = sum(1 for c in case['cmds'] if c['op'] in MUTATING)
    errs = sorted({o for c, o in zip(case['cmds'], obs) if c['op'] in MUTATING and o != 0})
    lab = 'ops<=8' if n <= 8 else 'ops<=16' if n <= 16 else 'ops>16'
    return '%s%s/errors=%s' % ('inadmissible/' if case.get('inadmissible_stream') else '', lab, errs)


def shrink(case):
    # drop one mutating op together with the probes that follow it
    cmds = case['cmds']
    idx = [i for i, c in enumerate(cmds) if c['op'] in MUTATING] + [len(cmds)]
    for a_, b_ in zip(idx, idx[1:]):
        yield dict(case, cmds=cmds[:a_] + cmds[b_:])


def _star_rule_removed_by_name(case, what, m):
    return (any(c['op'] == 'add' and c['rule'].endswith('*') for c in case['cmds'])
            and any(c['op'] == 'remove_name' for c in case['cmds']))


API_SURFACE = L.API_SURFACE          # audit round 4: see tools/props/routerC_lib.py

PREDICATES = {'star_rule_removed_by_name': _star_rule_removed_by_name}

MANIFEST = dict(
    text=('Proof (Coq, 14 theorems, every one closed under the global context, no depth bound). ADMISSIBLE histories = every '
          'operation in any order (add / overwrite / rejected add incl. the name conflict that has already inserted its route '
          '/ remove by rule, by name, by prefix "*" / add and remove hook / remove_method), a prefix removal "P*" only when no '
          'installed hook pattern properly extends P (the property text restricts prefix removal to routes). FULL for all '
          'admissible histories: C11_history_eq_fresh (the freshly built router — empty tree + surviving routes in index order '
          '+ surviving hooks, same Route objects and indexes — exists, i.e. every re-insertion is accepted, and answers every '
          'request exactly as the edited one: 404 / 405+Allow / rule, method, handler, kwargs and hook list; listings and '
          'router[name] are the same indexes; router[{rule}] agrees), C11_hooks_fire_exactly (a route hook fires for exactly '
          'the matched routes whose pattern extends the hook pattern, outermost first, at the position reached after that '
          'prefix), C11_same_survivors_same_answers, C11_by_rule_is_index_lookup. For ALL histories: C11_remove_exact_effect '
          '(RadiDict.remove in every mode with pruning and _try_merge keeps the tree well-formed and removes exactly the named '
          'routes), C11_hook_install_keeps_routes, C11_history_tree_matches_index, C11_history_eq_fresh_partial (route part). '
          'Tree-level: C11_lookup_collects_held_hooks, C11_hook_slots_insert, C11_remove_keeps_hooks (repaired F14), '
          'C11_prefix_cut_keeps_hooks, C11_rebuild_accepted. NOT covered by a theorem: the 404 branch of Ombott.handler '
          '(PARTIAL slot of the last collected hook with path[:1+pos] and param_values) — modelled (Router.fired_partial) and '
          'compared by the correspondence only; and "freshly built" is formalised as rebuilding the tree from the indexes '
          'with the same Route objects — re-running RadiRouter.add for every surviving route/method/name on the real code is '
          'what the oracle does after every operation of the generated histories (resolve direct and through '
          'Ombott.__call__ incl. hooks fired, router[name], router[{rule}], the listings).'),
    note=('Trusted: Coq kernel + vm_compute; extraction; the harness; filt as a section variable. The model is faithful to '
          'the code with fixes F14, F15 and F33 (found while building this check). The model is tied to /repo by the '
          'differential correspondence after EVERY operation of generated histories (incl. an inadmissible stream).'),
    technique='Coq proof (invariants over edit histories, induction on the tree, rebuild-acceptance) + correspondence + fresh-router oracle',
    design_ref='DESIGN.md section 4, C11; Appendix A.4',
)
