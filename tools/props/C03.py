"""C03 — every request gets exactly one well-formed WSGI response.

Handler programs (DESIGN C03 grammar) are JSON values; `build` turns them into
real callables / iterables / file-likes / HTTPResponse objects with recording
`close`, `validated_call` drives Ombott.__call__ under a PEP 3333 validator
written for this purpose, and the recorded event trace is compared with the
trace predicted by coq/model/Wsgi.v.  The oracle states the property clauses
on the recorded events only.
"""
import datetime
import email.utils
import html
import http.client
import http.cookies
import io
import itertools
import json
from urllib.parse import quote, urljoin

from props.common import enc_str, enc_list, Reader
from props import wsgi_cov

ID = 'C03'
COQ_MODEL = 'model.Wsgi'
COQ_CORR = 'corr_C03'
N_QUICK = 3000
N_THOROUGH = 20000
VM_CASES = 40
RULE = ('cases = corpus + random handler programs from the grammar out/item/resp/outcome/hook (nesting depth <= 3), '
        'instantiated as real callables, lists, iterator objects and file-likes with recording close(), with and '
        'without wsgi.file_wrapper, all 7 verbs, statuses {100,101,102,199,200,204,206,301,304,404,500,999} and '
        'custom reason lines, 0-3 before/after hooks and route hooks that may fail, 404/405/partial-404 routing, '
        'custom error handlers (constant, body, same-error loop, raising), the class of every raised exception from a '
        'pool of 43 (builtin hierarchy incl. the OSError family, GeneratorExit, KeyboardInterrupt/SystemExit/MemoryError, '
        'user subclasses of Exception/BaseException/KeyboardInterrupt/MemoryError), HTML and JSON error pages, response '
        'mutations (status, headers incl. charset, cookies); plus status-setter cases; thorough adds an exhaustive '
        'enumeration of a depth-2 alphabet. non-trivial = the program contains an iterable, a file, a response '
        'object, a raise, a failing hook, a custom error handler, or the response may not carry a body; distinct '
        'by the whole program')
TRUSTED = [
    'modelled, not verified: codec lookup by name (fixed table utf-8/latin-1/ascii spellings, every other name = '
    'LookupError); str(body)/json.dumps(body)/repr(exception)/str(type(x)) of handler objects, '
    'Morsel.OutputString() and the HTTP reason phrases are inputs supplied by the harness; traceback text is '
    'replaced by a fixed marker (ombott.ombott.format_exc patched by the harness); config.debug = False, '
    'catchall = True, no domain_map',
    'section variables: eh (custom error handlers: arbitrary function code -> handler), reason (http.client phrase table)',
    'oracle only (run on the implementation, not compared with the model): error pages with config.debug=True (repr of the '
    'exception and the traceback text inside the page), BaseResponse members the framework never calls (respapi cases)',
    'exception classes: a class is modelled by the names in its __mro__; the class tuples of the three '
    '`except (...): raise` clauses are read from the source (Gen.passthrough_handle/_cast/_wsgi, pinned to '
    'KeyboardInterrupt/SystemExit/MemoryError by C03_passthrough_by_class); the oracle states independently that only '
    'these three (subclasses included) and non-Exception classes may reach the server, and then before any '
    'start_response; StopIteration raised by next() is "no more items", not a raise; a class deriving from both '
    'HTTPResponse and one of the three is not modelled',
    'add_hook/remove_hook calls made by hooks or the handler are modelled within one request (after list: effective if made '
    'before its emit starts; an emit iterates a copy); their effect on later requests is not modelled',
    'header names/values and cookie renderings of handler-made responses are wire-safe (C14) and UTF-8 encodable: '
    'hypothesis of C03_headers_wf',
]
ASSUMPTIONS = ['decodable PATH_INFO', 'start_response provided by the server does not raise',
               'handler objects do not change behaviour between hasattr/getattr probes']

VERBS = ['GET', 'HEAD', 'POST', 'PUT', 'DELETE', 'PATCH', 'OPTIONS']
STATUSES = [100, 101, 102, 199, 200, 204, 206, 301, 304, 404, 500, 999, 520]
TB_TEXT = 'TRACEBACK'

PHRASES = {int(k): v for k, v in http.client.responses.items()}
PHRASES.update({418: "I'm a teapot", 422: 'Unprocessable Entity', 428: 'Precondition Required',
                429: 'Too Many Requests', 431: 'Request Header Fields Too Large',
                511: 'Network Authentication Required'})


def status_of(st):
    """(code, line) the status setter produces for a valid argument"""
    if isinstance(st, int):
        return st, '%d %s' % (st, PHRASES.get(st, 'Unknown'))
    s = st.strip()
    return int(s.split()[0]), s


def cookie_morsel(jar, name, value, opts=None):
    """what BaseResponse.set_cookie(name, value, **opts) leaves in a SimpleCookie (plain str values only),
    written from the documentation of set_cookie, with http.cookies and email.utils only"""
    jar[name] = value
    for k, v in (opts or {}).items():
        if k == 'max_age_td':
            k, v = 'max_age', v[1] + v[0] * 24 * 3600
        if k == 'expires':
            v = email.utils.formatdate(v, usegmt=True)
        jar[name][k.replace('_', '-')] = v
    return jar[name]


def cookie_rendered(name, value, opts=None):
    return cookie_morsel(http.cookies.SimpleCookie(), name, value, opts).OutputString()


def cookie_kwargs(opts):
    kw = {}
    for k, v in (opts or {}).items():
        if k == 'max_age_td':
            kw['max_age'] = datetime.timedelta(days=v[0], seconds=v[1])
        else:
            kw[k] = v
    return kw


DELETE_OPTS = dict(max_age=-1, expires=0)


# --------------------------------------------------------------------------
# instantiation of programs
# --------------------------------------------------------------------------

class Rec:
    def __init__(self):
        self.ev = []
        self.shared = {}      # response objects the handlers of one application keep and reuse


class RecFile:
    def __init__(self, rec, oid, content):
        self._rec, self._id, self._buf = rec, oid, io.BytesIO(bytes(content))

    def read(self, n=-1):
        self._rec.ev.append(['read', self._id])
        return self._buf.read(n)

    def __repr__(self):
        return '<%s %d>' % (type(self).__name__, self._id)


class RecFileC(RecFile):
    def close(self):
        self._rec.ev.append(['close', self._id])


class RecFileI(RecFile):
    def __iter__(self):
        while True:
            b = self.read(8192)
            if not b:
                return
            yield b


class RecFileCI(RecFileC, RecFileI):
    pass


FILE_CLASSES = {(False, False): RecFile, (True, False): RecFileC, (False, True): RecFileI, (True, True): RecFileCI}


class Boom(Exception):
    pass


class BadRepr(Exception):
    def __repr__(self):
        raise RuntimeError('no repr')


# ---- the class of the exception a program raises is a dimension of its own ----
class UserExc(Exception):
    pass


class UserBase(BaseException):
    pass


class UserInterrupt(KeyboardInterrupt):
    pass


class UserOOM(MemoryError):
    pass


EXC_POOL = {c.__name__: c for c in [
    Exception, ValueError, TypeError, KeyError, IndexError, LookupError, AttributeError, ArithmeticError,
    ZeroDivisionError, OverflowError, UnicodeError, RuntimeError, RecursionError, NotImplementedError,
    AssertionError, ImportError, ModuleNotFoundError, EOFError, BufferError, StopIteration, StopAsyncIteration,
    OSError, ConnectionError, ConnectionResetError, ConnectionAbortedError, ConnectionRefusedError, BrokenPipeError,
    TimeoutError, FileNotFoundError, PermissionError, InterruptedError, BlockingIOError, ChildProcessError,
    IsADirectoryError, ProcessLookupError,
    GeneratorExit, KeyboardInterrupt, SystemExit, MemoryError,
    UserExc, UserBase, UserInterrupt, UserOOM]}
# the property's reading: these three (and their subclasses) are passed on to the server by design; what is
# not an Exception at all (GeneratorExit, a direct BaseException subclass) is not the framework's to answer either
PASS_BY_DESIGN = (KeyboardInterrupt, SystemExit, MemoryError)


def passes_by_design(cls):
    return issubclass(cls, PASS_BY_DESIGN) or not issubclass(cls, Exception)


ORDINARY_NAMES = sorted(n for n, c in EXC_POOL.items() if not passes_by_design(c))
ESCAPE_NAMES = sorted(n for n, c in EXC_POOL.items() if passes_by_design(c))


def is_raise(d):
    return d.get('k') in ('raise_exc', 'raise_fatal') or (d.get('k') == 'raise' and 'cls' in d)


def exc_class(d):
    """the class a raising program element (handler / hook result, iterable item, error-handler spec) raises"""
    if d.get('k') == 'raise_fatal':
        return FATAL[d['exc']]
    if d.get('cls'):
        return EXC_POOL[d['cls']]
    return BadRepr if d.get('badrepr') else Boom


def exc_instance(d):
    cls = exc_class(d)
    if cls is BadRepr:
        return BadRepr()
    return cls(d['msg'] if 'msg' in d else
               'fatal' if d.get('k') == 'raise_fatal' else 'eh' if d.get('k') == 'raise' else 'boom')


class RecIter:
    def __init__(self, rec, oid, items):
        self._rec, self._id, self._items = rec, oid, iter(items)

    def __iter__(self):
        return self

    def __next__(self):
        self._rec.ev.append(['next', self._id])
        it = next(self._items)
        if it['k'] == 'yield':
            return build(it['o'], self._rec)
        if it['k'] == 'raise_http':
            raise build_resp(it['r'], it['err'], self._rec)
        raise exc_instance(it)

    def __repr__(self):
        return '<%s %d>' % (type(self).__name__, self._id)


class RecIterC(RecIter):
    def close(self):
        self._rec.ev.append(['close', self._id])


class RecBox:
    """a container with close() whose __iter__ returns a separate iterator object: a generator
    ('gen') or a plain iterator without close ('iter')"""

    def __init__(self, rec, oid, items, inner):
        self._rec, self._id, self._items, self._inner = rec, oid, items, inner

    def __iter__(self):
        if self._inner == 'iter':
            return RecIter(self._rec, self._id, self._items)
        return self._gen()

    def _gen(self):
        for it in self._items:
            self._rec.ev.append(['next', self._id])
            if it['k'] == 'yield':
                yield build(it['o'], self._rec)
            elif it['k'] == 'raise_http':
                raise build_resp(it['r'], it['err'], self._rec)
            else:
                raise exc_instance(it)

    def __repr__(self):
        return '<%s %d>' % (type(self).__name__, self._id)


class RecBoxC(RecBox):
    def close(self):
        self._rec.ev.append(['close', self._id])


class RecWrapper:
    """stand-in for a server's wsgi.file_wrapper (PEP 3333: close() must call the file's close)"""

    def __init__(self, f, blksize=8192):
        self.f, self.blksize = f, blksize
        if hasattr(f, 'close'):
            self.close = f.close

    def __iter__(self):
        while True:
            b = self.f.read(self.blksize)
            if not b:
                return
            yield b


class Thing:
    """an arbitrary truthy object that is neither iterable nor file-like"""

    def __repr__(self):
        return '<Thing>'


FALSY = {'none': None, 'estr': '', 'ebytes': b'', 'zero': 0, 'elist': [], 'edict': {}, 'false': False}
OTHERS = {'int': 42, 'float': 1.5, 'object': None}


def build_resp(r, err, rec, shared=None):
    if shared is not None:
        if shared not in rec.shared:
            rec.shared[shared] = build_resp(r, err, rec)
        return rec.shared[shared]
    from ombott import HTTPResponse, HTTPError
    body = build(r['body'], rec)
    ctor = r.get('ctor', 'append')
    hs = [tuple(h) for h in r['headers']]
    if ctor == 'dict' and len({n for n, _ in hs}) != len(hs):
        ctor = 'list'                      # a dict cannot hold a name twice
    kw = {}
    if ctor == 'list':
        kw['headers'] = hs
    elif ctor == 'dict':
        kw['headers'] = dict(hs)
    elif ctor == 'kw':
        if len({n for n, _ in hs}) == len(hs):
            kw.update(dict(hs))            # **more_headers
        else:
            kw['headers'] = hs
    if err:
        x = HTTPError(r['status'], body, **kw)
    else:
        x = HTTPResponse(body, r['status'], **kw)
    if ctor == 'append':
        for n, v in hs:
            x.headers.append(n, v)
    for c in r['cookies']:
        x.set_cookie(c[0], c[1], **cookie_kwargs(c[2] if len(c) > 2 else None))
    return x


FATAL = {'KeyboardInterrupt': KeyboardInterrupt, 'SystemExit': SystemExit, 'MemoryError': MemoryError}


def build(o, rec):
    k = o['k']
    if k == 'falsy':
        v = FALSY[o['v']]
        return type(v)() if isinstance(v, (list, dict)) else v
    if k == 'str':
        return o['s']
    if k == 'bytes':
        return bytes(o['b'])
    if k == 'http':
        return build_resp(o['r'], o['err'], rec, o.get('shared'))
    if k == 'file':
        return FILE_CLASSES[(o['close'], o['iter'])](rec, o['id'], o['content'])
    if k == 'iter':
        if o.get('list'):
            items = [build(it['o'], rec) for it in o['items']]
            return tuple(items) if o['list'] == 'tuple' else items
        if o.get('box'):
            return (RecBoxC if o['close'] else RecBox)(rec, o['id'], o['items'], o['box'])
        return (RecIterC if o['close'] else RecIter)(rec, o['id'], o['items'])
    if k == 'other':
        return Thing() if o['v'] == 'object' else OTHERS[o['v']]
    raise ValueError(k)


def run_prog(app, h, rec):
    for m in h['muts']:
        if m['m'] == 'status':
            app.response.status = m['v']
        elif m['m'] == 'set':
            if m.get('via') == 'prop' and m['n'] == 'Content-Type':
                app.response.content_type = m['v']
            elif m.get('via') == 'prop' and m['n'] == 'Content-Length':
                app.response.content_length = m['v']
            elif m.get('via') == 'prop' and m['n'] == 'Expires':
                app.response.expires = m['v']          # writer: http_date(unix timestamp)
            else:
                app.response.headers[m['n']] = m['v']
        elif m['m'] == 'add':
            app.response.headers.append(m['n'], m['v'])
        elif m['m'] == 'cookie':
            app.response.set_cookie(m['n'], m['v'], **cookie_kwargs(m.get('opts')))
        elif m['m'] == 'delcookie':
            app.response.delete_cookie(m['n'], **cookie_kwargs(m.get('opts')))
        elif m['m'] == 'env':
            # a hook rewriting the request (strip a prefix, override the verb): Request.__setitem__
            # (PATH_INFO is already decoded at this point: ombott.py:272)
            app.request[m['key']] = m['v']
        elif m['m'] == 'del':
            if m.get('via') == 'del':
                if m['n'] in app.response.headers:
                    del app.response.headers[m['n']]
            else:
                app.response.headers.pop(m['n'], None)
        elif m['m'] == 'clear':
            if m.get('ns') is None:
                app.response.headers.clear()
            else:
                app.response.headers.clear(*m['ns'])
        elif m['m'] == 'update':
            app.response.headers.update(dict(m['items']))
        elif m['m'] == 'bad':
            w = m['what']
            if w == 'ctl':
                how = m.get('how', 'set')
                if how == 'set':
                    app.response.headers['X-Bad'] = m['v']
                elif how == 'append':
                    app.response.headers.append('X-Bad', m['v'])
                elif how == 'ctype':
                    app.response.content_type = m['v']
                else:
                    # set_cookie stores the cookie first and validates the options afterwards
                    app.response.set_cookie('badopt', 'v', **{how[len('cookie-'):]: m['v']})
            elif w == 'type':
                app.response.headers.append('X-Bad', b'bytes')
            elif w == 'status':
                app.response.status = m['v']
            elif w == 'cookie-type':
                app.response.set_cookie('bad', 5)
            elif w == 'cookie-long':
                app.response.set_cookie('bad', 'x' * 4097)
            # the call above raises; should it not, the program goes on and what it stored reaches start_response
        elif m['m'] in ('rmhook', 'addhook'):
            name = 'after_request' if m['after'] else 'before_request'
            tag = 'hookA' if m['after'] else 'hookB'
            funcs = app._verif_hooks[name]
            if m['m'] == 'rmhook':
                if m['j'] in funcs:
                    app.remove_hook(name, funcs[m['j']])
            else:
                def marker(tag=tag, j=m['j']):
                    rec.ev.append([tag, j])
                funcs[m['j']] = marker
                app.add_hook(name, marker)
    res = h['res']
    if res['k'] == 'ret':
        return build(res['o'], rec)
    if res['k'] == 'raise_http':
        r = res['r']
        if res.get('via') == 'abort':
            import ombott
            ombott.abort(r['status'], build(r['body'], rec))
        raise build_resp(r, res['err'], rec, res.get('shared'))
    if res['k'] == 'redirect':
        import ombott
        if res.get('code') is None:
            ombott.redirect(res['loc'])
        ombott.redirect(res['loc'], res['code'])
    raise exc_instance(res)


def other_verbs(method):
    return ['POST', 'PUT'] if method not in ('POST', 'PUT') else ['DELETE', 'GET']


SPECIAL_TAIL = '<&"\'é'


def request_path(case):
    rt = case['routing']['k']
    if rt == '404':
        base = '/nf/x'
    else:
        base = '/h/a/t'
    return base + PATH_TAILS.get(case.get('path'), '')


# '%' in PATH_INFO is an ordinary character (the server has decoded the URL already): no second decoding, no
# second dispatch
PATH_TAILS = {'special': SPECIAL_TAIL, 'pct20': '/my%20report', 'pct2f': '/no/such%2Fpage', 'pctbad': '/100%',
              'pct25': '/a%2520b', 'pctnul': '/x%00y'}


def config_of(case):
    cfg = case.get('cfg') or {}
    return {k: cfg[k] for k in ('catchall', 'debug', 'max_body_size', 'max_memfile_size') if k in cfg}


# request headers / bodies that no handler program of the grammar reads: whatever they say, the request runs
# through _handle like any other (hooks, routing, handler) — nothing may refuse it before that
REQ_ODDITIES = [
    {'CONTENT_LENGTH': '999999', '_body': 'x' * 20}, {'CONTENT_LENGTH': '1001'}, {'CONTENT_LENGTH': '11', '_body': 'x' * 11},
    {'CONTENT_LENGTH': '9' * 30}, {'CONTENT_LENGTH': '12abc'}, {'CONTENT_LENGTH': '12, 12', '_body': 'x' * 12},
    {'CONTENT_LENGTH': '-1'}, {'CONTENT_LENGTH': ''}, {'CONTENT_LENGTH': '1e3'},
    {'HTTP_TRANSFER_ENCODING': 'chunked', '_body': 'zz\r\n'}, {'HTTP_TRANSFER_ENCODING': 'chunked', 'CONTENT_LENGTH': '999999'},
    {'HTTP_TRANSFER_ENCODING': 'gzip', 'CONTENT_LENGTH': '999999'},
    {'CONTENT_TYPE': 'multipart/form-data', 'CONTENT_LENGTH': '999999'}, {'CONTENT_TYPE': 'multipart/form-data; boundary='},
    {'CONTENT_TYPE': 'application/json', '_body': '{bad', 'CONTENT_LENGTH': '4'},
    {'CONTENT_TYPE': 'application/x-www-form-urlencoded', '_body': 'a=1&b=' + 'x' * 2000, 'CONTENT_LENGTH': '2006'},
    {'HTTP_COOKIE': 'a=b; ;;=; "'}, {'HTTP_EXPECT': '100-continue'}, {'HTTP_RANGE': 'bytes=abc'},
    {'HTTP_IF_MODIFIED_SINCE': 'yesterday'}, {'HTTP_AUTHORIZATION': 'Basic !!!'}, {'HTTP_X_REQUESTED_WITH': 'XMLHttpRequest'},
]
BODY_LIMITS = [dict(max_body_size=10), dict(max_body_size=1000, max_memfile_size=5), dict(max_body_size=0),
               dict(max_memfile_size=1)]


def new_app(case):
    from ombott import Ombott
    cfg = case.get('cfg') or {}
    if cfg.get('via') == 'setup':
        app = Ombott()
        app.setup(config_of(case))
        return app
    if cfg.get('via') == 'ctor':
        return Ombott(config_of(case))
    return Ombott()


def register_hook(app, case, name, f, k):
    how = case.get('hookreg', 'add_hook')
    if how == 'mixed':
        how = ('add_hook', 'on', 'deco')[k % 3]
    if how == 'on':
        app.on(name, f)
    elif how == 'deco':
        app.on(name)(f)
    else:
        app.add_hook(name, f)


def build_app(case, rec):
    app = new_app(case)
    method = case['method']
    rt = case['routing']

    def mk(tag, i, h):
        def f(*a, **kw):
            rec.ev.append([tag, i] if i is not None else [tag])
            return run_prog(app, h, rec)
        return f
    app._verif_hooks = {'before_request': {}, 'after_request': {}}
    for i, h in enumerate(case['before']):
        f = app._verif_hooks['before_request'][i] = mk('hookB', i, h)
        register_hook(app, case, 'before_request', f, i)
    for j, h in enumerate(case['after']):
        f = app._verif_hooks['after_request'][j] = mk('hookA', j, h)
        register_hook(app, case, 'after_request', f, j + 1)
    rule = '/h/a/<x:path>'
    if rt['k'] == 'ok':
        app.route(rule, method=rt.get('reg', method), callback=mk('handler', None, rt['h']))
        for i, (h, hr) in enumerate(zip(rt['rhooks'], ['/h', '/h/a'])):
            app.on_route(hr, mk('rhook', i, h))
    elif rt['k'] == '405':
        for v in other_verbs(method):
            app.route(rule, method=v, callback=lambda **kw: 'unreachable')
    elif rt['k'] == '404' and rt.get('partial') is not None:
        app.error(404, rule='/nf')(mk('handler', None, rt['partial']))
    for code, spec in case['eh']:
        def handler(err, spec=spec):
            if spec['k'] == 'const':
                return build(spec['o'], rec)
            if spec['k'] == 'body':
                return err.body
            if spec['k'] == 'same':
                return err
            raise exc_instance(spec)
        app.error(code)(handler)
    orig = app.to_route

    def to_route(path, verb):
        rec.ev.append(['routed'])
        return orig(path, verb)
    app.to_route = to_route
    return app


def make_environ(case):
    path = request_path(case)
    method = case['method']
    rw = case.get('rewrite')
    if rw:
        # the request arrives with another path / verb; the first before_request hook rewrites it to the
        # one the routes are written for (case['before'][0] carries the env mutations)
        path, method = rw.get('path', path), rw.get('method', method)
    env = {
        'REQUEST_METHOD': method, 'PATH_INFO': path.encode('utf8').decode('latin1'), 'QUERY_STRING': '',
        'SERVER_NAME': 'localhost', 'SERVER_PORT': '80', 'SERVER_PROTOCOL': 'HTTP/1.1', 'wsgi.url_scheme': 'http',
        'wsgi.input': io.BytesIO(b''), 'wsgi.errors': io.StringIO(), 'wsgi.version': (1, 0),
        'wsgi.multithread': False, 'wsgi.multiprocess': False, 'wsgi.run_once': False, 'SCRIPT_NAME': '',
    }
    if case.get('accept') is not None:
        env['HTTP_ACCEPT'] = case['accept']
    elif case['json']:
        env['HTTP_ACCEPT'] = 'application/json'
    if case.get('proto'):
        env['SERVER_PROTOCOL'] = case['proto']
    if case['fw']:
        env['wsgi.file_wrapper'] = RecWrapper
    odd = case.get('reqhdr')
    if odd:
        env.update({k: v for k, v in odd.items() if k != '_body'})
        env['wsgi.input'] = io.BytesIO(odd.get('_body', '').encode('latin1'))
    return env


ACCEPTS = [('application/json', True), ('application/json; q=0.9', True), ('application/jsonx', True),
           ('text/html, application/json', False), ('', False), ('Application/JSON', False), ('*/*', False)]


# --------------------------------------------------------------------------
# PEP 3333 validator (server side), written for this check
# --------------------------------------------------------------------------

HOP_BY_HOP = {'connection', 'keep-alive', 'proxy-authenticate', 'proxy-authorization', 'te', 'trailers',
              'transfer-encoding', 'upgrade'}


def check_start_response(status, headers, exc_info, n_calls, problems):
    if type(status) is not str:
        problems.append('status is %s, not str' % type(status).__name__)
    else:
        if len(status) < 4 or not (status[:3].isascii() and status[:3].isdigit()) or status[3] != ' ':
            problems.append('status line %r is not "NNN reason"' % status)
        elif int(status[:3]) < 100:
            problems.append('status code below 100 in %r' % status)
        if any(ord(c) < 32 or ord(c) == 127 for c in status) or status != status.rstrip():
            problems.append('control character or trailing whitespace in status line %r' % status)
        try:
            status.encode('latin1')
        except UnicodeError:
            problems.append('status line not Latin-1')
    if type(headers) is not list:
        problems.append('headers is %s, not list' % type(headers).__name__)
        headers = list(headers)
    for h in headers:
        if type(h) is not tuple or len(h) != 2:
            problems.append('header item %r is not a 2-tuple' % (h,))
            continue
        n, v = h
        if type(n) is not str or type(v) is not str:
            problems.append('header %r: name/value not str' % (h,))
            continue
        if not n or any(ord(c) <= 32 or ord(c) >= 127 or c in '()<>@,;:\\"/[]?={}' for c in n):
            problems.append('header name %r is not a token' % n)
        if n.lower() == 'status' or n.endswith('-') or n.endswith('_'):
            problems.append('bad header name %r' % n)
        if n.lower() in HOP_BY_HOP:
            problems.append('hop-by-hop header %r' % n)
        if any(ord(c) < 32 and c != '\t' or ord(c) == 127 for c in v):
            problems.append('control character in value of header %r' % n)
        try:
            v.encode('latin1')
        except UnicodeError:
            problems.append('value of header %r is not Latin-1' % n)
    if n_calls > 0 and exc_info is None:
        problems.append('start_response called again without exc_info')
    if exc_info is not None and (type(exc_info) is not tuple or len(exc_info) != 3):
        problems.append('exc_info is not a 3-tuple')


def validated_call(app, environ, rec):
    problems = []
    state = {'calls': 0, 'chunks_seen': 0}

    def start_response(status, headers, exc_info=None):
        check_start_response(status, headers, exc_info, state['calls'], problems)
        if exc_info is not None and state['chunks_seen']:
            problems.append('start_response with exc_info after output was sent (server must re-raise)')
        state['calls'] += 1
        hl = []
        try:
            hl = [[str(a), str(b)] for a, b in headers]
        except Exception:
            pass
        rec.ev.append(['start', str(status), hl, exc_info is not None])

        def write(data):
            problems.append('write() callable used')
        return write
    escaped = None
    result = None
    try:
        result = app(environ, start_response)
    except BaseException as e:      # KeyboardInterrupt / SystemExit are let through by the framework
        if type(e).__name__ == 'CaseTimeout':
            raise                   # the check's own time limit (tools/check.py): never swallowed here
        escaped = type(e).__name__
    if escaped is None:
        if result is None:
            problems.append('application returned None')
        else:
            chunks = []
            raised = False
            try:
                it = iter(result)
            except Exception as e:
                problems.append('returned object is not iterable: %s' % type(e).__name__)
                it = None
            if it is not None:
                while True:
                    try:
                        c = next(it)
                    except StopIteration:
                        break
                    except BaseException as e:  # a later item may raise any class (the server's business)
                        if type(e).__name__ == 'CaseTimeout':
                            raise
                        raised = True
                        break
                    if state['calls'] == 0:
                        problems.append('chunk yielded before start_response')
                    state['chunks_seen'] += 1
                    if type(c) is bytes:
                        chunks.append(list(c))
                    else:
                        chunks.append('bad')
                        problems.append('chunk of type %s, not bytes' % type(c).__name__)
            rec.ev.append(['body', chunks])
            if raised:
                rec.ev.append(['iter_raise'])
            close = getattr(result, 'close', None)
            if close is not None:
                try:
                    close()
                except Exception as e:
                    problems.append('close() raised %s' % type(e).__name__)
            if state['calls'] == 0:
                problems.append('start_response never called')
    return dict(events=rec.ev, problems=problems, escaped=escaped)


def run_impl(case):
    if wsgi_cov.ENABLED:
        import os
        wsgi_cov.start(os.environ.get('VERIF_REPO', '/repo'))
    if case['kind'] == 'status':
        from ombott.response import HTTPResponse
        r = HTTPResponse()
        try:
            r.status = case['arg']
        except (ValueError, IndexError) as e:
            return dict(status=type(e).__name__)
        return dict(status='ok', code=r._status_code, line=r._status_line)
    import ombott.ombott as om
    rec = Rec()
    saved = om.format_exc
    om.format_exc = lambda *a, **kw: TB_TEXT
    saved_g = (om.Globals.app, om.Globals.request, om.Globals.response)
    try:
        if case['kind'] == 'respapi':
            return run_respapi(case, rec)
        app = build_app(case, rec)
        # redirect() works on the module-level default application: make this one the default
        om.Globals.app, om.Globals.request, om.Globals.response = app, app.request, app.response
        if case['kind'] == 'pair':
            out = []
            for v in variants(case):
                rec.ev = []
                out.append(validated_call(app, make_environ(v), rec))
            return dict(pair=out)
        return validated_call(app, make_environ(case), rec)
    finally:
        om.format_exc = saved
        om.Globals.app, om.Globals.request, om.Globals.response = saved_g


def run_respapi(case, rec):
    """BaseResponse members the framework itself never calls on the request path"""
    from ombott import HTTPResponse, HTTPError
    from ombott.response import BaseResponse
    body = RecIterC(rec, 1, [dict(k='yield', o=dict(k='bytes', b=[1]))])
    r = HTTPResponse(body, case['status'], headers=[('X-A', 'v'), ('X-A', 'w'), ('X-B', 'u')])
    r.set_cookie('sid', 'v1')
    out = dict(first=list(next(iter(r))), status=[r.status, r.status_line, r.status_code])
    r.close()
    HTTPResponse('plain').close()
    out['closes'] = sum(1 for e in rec.ev if e[0] == 'close')
    out['repr'] = repr(HTTPResponse('x', 200, headers=[('x-a', ' v ')]))
    hd = r.headers
    out['hd'] = [len(hd), sorted(hd), hd['X-B'], 'X-A' in hd, repr(HTTPResponse('').headers)]
    try:
        c = HTTPResponse('x', 201, headers=[('X-B', 'u')])
        c.set_cookie('sid', 'v1')
        k = c.copy(HTTPError)
        out['copy'] = [type(k).__name__, k.status, k.headerlist, k.body]
    except Exception as e:
        out['copy'] = type(e).__name__
    try:
        r.copy()
        out['copy_multi'] = 'ok'
    except TypeError:
        out['copy_multi'] = 'TypeError'
    try:
        r.copy(dict)
    except AssertionError:
        out['copy_cls'] = 'AssertionError'
    return dict(respapi=out)


def variants(case):
    """the requests of a 'pair' case: one application, one handler program, two environs"""
    base = dict(case, kind='req')
    base.pop('second', None)
    return [base, dict(base, **case['second'])]


def status_unmodelled(case):
    a = case['arg']
    if isinstance(a, int) or ' ' not in a:
        return False
    tok = a.split()[:1]
    return bool(tok) and not tok[0].isascii()


def model_skipped(case):
    """case kinds checked by the oracle only: error pages with debug=True (page text not modelled),
    BaseResponse members outside the request path"""
    if case['kind'] == 'respapi':
        return 'respapi'
    if case['kind'] in ('req', 'pair'):
        if (case.get('cfg') or {}).get('debug'):
            return 'debug'
    return None


def project(obs, case):
    if model_skipped(case):
        return dict(skipped=model_skipped(case))
    if case['kind'] == 'status':
        return dict(status='unmodelled') if status_unmodelled(case) else obs
    if case['kind'] == 'pair':
        return dict(pair=[project(o, v) for o, v in zip(obs.get('pair', []), variants(case))])
    if 'events' not in obs:
        return obs
    return dict(events=[e for e in obs['events'] if e[0] not in ('next', 'read')], escaped=obs['escaped'] is not None)


# --------------------------------------------------------------------------
# codec
# --------------------------------------------------------------------------

def S(s):
    return enc_str([ord(c) for c in s])


def enc_hdrs(pairs):
    """list of (name, value) appended in order -> the dict HeaderDict.append builds"""
    d = {}
    for n, v in pairs:
        d.setdefault(n, []).append(str(v))          # _hval: str(value) for int / float / bool / None
    return enc_list(list(d.items()), lambda kv: S(kv[0]) + enc_list(kv[1], S))


def enc_jar(entries):
    jar = http.cookies.SimpleCookie()
    for c in entries:
        cookie_morsel(jar, c[0], c[1], c[2] if len(c) > 2 else None)
    return enc_list([(k, m.OutputString()) for k, m in jar.items()], lambda kv: S(kv[0]) + S(kv[1]))


_dummy = Rec()


def obj_texts(o):
    """str(obj), json.dumps(obj) or None, for the object a program value denotes"""
    try:
        obj = build(o, _dummy)
        bt = str(obj)
    except Exception:
        return '', None
    try:
        bj = json.dumps(obj)
    except (TypeError, ValueError):
        bj = None
    return bt, bj


def type_text(o):
    return str(type(build(o, _dummy)))


BOOM_EJSON = json.dumps(repr(Boom('boom')))


def enc_raise(d):
    """a raise of the harness class Boom: the model's plain crash; of a pool class: the names of its __mro__
    (the model decides from them and from the class tuples read from the source what the except clauses do)"""
    cls = exc_class(d)
    if cls in (Boom, BadRepr):
        return [2] + S(BOOM_EJSON)
    return [3] + enc_list([k.__name__ for k in cls.__mro__], S) + S(json.dumps(repr(exc_instance(d))))


def enc_resp(r):
    code, line = status_of(r['status'])
    bt, bj = obj_texts(r['body'])
    jar = (enc_list(r['cookies_rendered'], lambda kv: S(kv[0]) + S(kv[1])) if 'cookies_rendered' in r
           else enc_jar(r['cookies']))
    return ([code] + S(line) + enc_hdrs(r['headers']) + jar + enc_out(r['body'])
            + S(bt) + ([0] if bj is None else [1] + S(bj)) + S(json.dumps(repr(None))) + [0])


def enc_item(it):
    if it['k'] == 'yield':
        return [0] + enc_out(it['o'])
    if it['k'] == 'raise_http':
        return [1, int(it['err'])] + enc_resp(it['r'])
    return enc_raise(it)


def enc_out(o):
    k = o['k']
    if k == 'falsy':
        return {'estr': [1, 0], 'ebytes': [2, 0]}.get(o['v'], [0])
    if k == 'str':
        return [1] + S(o['s'])
    if k == 'bytes':
        return [2] + enc_str(o['b'])
    if k == 'http':
        return [3, int(o['err'])] + enc_resp(o['r'])
    if k == 'file':
        return [4, o['id'], int(o['close']), int(o['iter'])] + enc_str(o['content']) + S(type_text(o))
    if k == 'iter':
        return [5, o['id'], int(bool(o['close']) and not o.get('list'))] + enc_list(o['items'], enc_item) + S(type_text(o))
    if k == 'other':
        obj = build(o, _dummy)
        try:
            iter(obj)
            ej = ''
        except TypeError as e:
            ej = json.dumps(repr(e))
        return [6] + S(str(type(obj))) + S(ej)
    raise ValueError(k)


def enc_muts(ms):
    """the model's mutation list (one harness mutation may be several of the model's)"""
    out = []
    for m in ms:
        if m['m'] == 'clear' and m.get('ns') is not None:
            out += [[6] + S(n) for n in m['ns']]
        elif m['m'] == 'update':
            out += [[1] + S(n) + S(str(v)) for n, v in dict(m['items']).items()]
        else:
            out.append(enc_mut(m))
    return [len(out)] + [x for e in out for x in e]


def enc_mut(m):
    if m['m'] == 'status':
        code, line = status_of(m['v'])
        return [0, code] + S(line)
    if m['m'] == 'env':
        return [8, int(m['key'] == 'REQUEST_METHOD')] + S(m['v'])
    if m['m'] == 'add':
        return [2] + S(m['n']) + S(str(m['v']))
    if m['m'] == 'del':
        return [6] + S(m['n'])
    if m['m'] == 'clear':
        return [7]
    if m['m'] in ('cookie', 'delcookie'):
        # response._cookies is one SimpleCookie per request: setting a name again re-uses its Morsel, whose
        # attributes persist (delete_cookie then set_cookie keeps Max-Age=-1) — render from the jar so far
        jar = _ENC['jar'] if _ENC.get('jar') is not None else http.cookies.SimpleCookie()
        if m['m'] == 'cookie':
            mo = cookie_morsel(jar, m['n'], m['v'], m.get('opts'))
        else:
            mo = cookie_morsel(jar, m['n'], '', dict(DELETE_OPTS, **(m.get('opts') or {})))
        return [3] + S(m['n']) + S(mo.OutputString())
    if m['m'] == 'set' and m.get('via') == 'prop' and m['n'] == 'Expires':
        return [1] + S('Expires') + S(email.utils.formatdate(m['v'], usegmt=True))
    if m['m'] == 'set':
        return [1] + S(m['n']) + S(str(m['v']))
    if m['m'] == 'add':
        return [2] + S(m['n']) + S(m['v'])
    if m['m'] == 'rmhook':
        return [4, int(m['after']), m['j']]
    if m['m'] == 'addhook':
        return [5, int(m['after']), m['j']]
    return [3] + S(m['n']) + S(cookie_rendered(m['n'], m['v']))


def bad_mut_exc(m):
    w = m['what']
    if w == 'ctl':
        return ValueError('Header value must not contain control characters: %r' % m['v'])
    if w == 'type':
        return TypeError("Header value must be type of (str, int, float, bool, None), got: %s" % type(b''))
    if w == 'status':
        return ValueError('Status code out of range.' if isinstance(m['v'], int) or ' ' in m['v']
                          else 'String status line without a reason phrase.')
    if w == 'cookie-type':
        return TypeError('Secret key missing for non-string Cookie.')
    return ValueError('Cookie value to long.')


class SimResp:
    """headers and cookies of the response object after a list of mutations (for redirect(), which copies them)"""

    def __init__(self):
        self.h = {}
        self.jar = http.cookies.SimpleCookie()

    def apply(self, m):
        k = m['m']
        if k == 'set' and m.get('via') == 'prop' and m['n'] == 'Expires':
            self.h['Expires'] = email.utils.formatdate(m['v'], usegmt=True)
        elif k == 'set':
            self.h[m['n']] = str(m['v'])
        elif k == 'add':
            old = self.h.get(m['n'])
            if old is None:
                self.h[m['n']] = str(m['v'])
            elif isinstance(old, list):
                old.append(str(m['v']))
            else:
                self.h[m['n']] = [old, str(m['v'])]
        elif k == 'del':
            self.h.pop(m['n'], None)
        elif k == 'clear':
            if m.get('ns') is None:
                self.h.clear()
            else:
                for n in m['ns']:
                    self.h.pop(n, None)
        elif k == 'update':
            self.h.update({n: str(v) for n, v in dict(m['items']).items()})
        elif k == 'cookie':
            cookie_morsel(self.jar, m['n'], m['v'], m.get('opts'))
        elif k == 'delcookie':
            cookie_morsel(self.jar, m['n'], '', dict(DELETE_OPTS, **(m.get('opts') or {})))


_ENC = {'case': None, 'prior': [], 'jar': None}


def enc_in_execution_order(before, after, rhooks, handler):
    """encode the programs of one request in the order they run, threading the cookie jar through those
    that do run (a program after a failing hook does not) -> (before, after, rhooks, handler) encodings"""
    live = http.cookies.SimpleCookie()
    running = True

    def enc(h, runs):
        _ENC['jar'] = live if runs else http.cookies.SimpleCookie()
        try:
            return enc_hprog(h)
        finally:
            _ENC['jar'] = None
    eb = []
    for h in before:
        eb.append(enc(h, running))
        running = running and not fails(h)
    er = []
    reach = running
    for h in rhooks:
        er.append(enc(h, reach))
        reach = reach and not fails(h)
    eh_ = enc(handler, reach) if handler is not None else None
    ea_by_index = {}
    arun = True
    for j in range(len(after) - 1, -1, -1):          # after hooks run in reverse registration order
        ea_by_index[j] = enc(after[j], arun)
        arun = arun and not fails(after[j])
    ea = [ea_by_index[j] for j in range(len(after))]

    def lst(es):
        return [len(es)] + [x for e in es for x in e]
    return lst(eb), lst(ea), lst(er), eh_


def request_url(case):
    return 'http://localhost' + quote(request_path(case))


def redirect_result(res, muts):
    """what redirect(loc, code) raises: a copy of the response object (BaseResponse.copy) with status, empty
    body and Location"""
    case = _ENC['case']
    sim = SimResp()
    for m in _ENC['prior'] + muts:
        sim.apply(m)
    if any(isinstance(v, list) for v in sim.h.values()):
        # copy() re-appends every stored value through _hval, which refuses a list
        e = TypeError("Header value must be type of (str, int, float, bool, None), got: %s" % type([]))
        return [2] + S(json.dumps(repr(e)))
    code = res.get('code') or (303 if case.get('proto', 'HTTP/1.1') == 'HTTP/1.1' else 302)
    hs = dict(sim.h)
    hs['Location'] = urljoin(request_url(case), res['loc'])
    new = http.cookies.SimpleCookie()
    if sim.jar:
        new.load(sim.jar.output(header=''))
    r = dict(status=code, headers=[[n, v] for n, v in hs.items()], cookies=[],
             cookies_rendered=[[k, m.OutputString()] for k, m in new.items()], body=dict(k='falsy', v='estr'))
    return [1, 0] + enc_resp(r)


def enc_hprog(h):
    muts = h['muts']
    bad = next((i for i, m in enumerate(muts) if m['m'] == 'bad'), None)
    if bad is not None:
        pre = muts[:bad]
        if muts[bad].get('how', '').startswith('cookie-'):
            pre = pre + [dict(m='cookie', n='badopt', v='v')]       # the cookie itself is in the jar by then
        return enc_muts(pre) + [2] + S(json.dumps(repr(bad_mut_exc(muts[bad]))))
    res = h['res']
    if res['k'] == 'ret':
        r = [0] + enc_out(res['o'])
    elif res['k'] == 'raise_http':
        r = [1, int(res['err'])] + enc_resp(res['r'])
    elif res['k'] == 'redirect':
        r = redirect_result(res, muts)
    else:
        r = enc_raise(res)
    return enc_muts(muts) + r


def enc_eh(entry):
    code, spec = entry
    if spec['k'] == 'const':
        return [code, 0] + enc_out(spec['o'])
    if spec['k'] == 'raise' and spec.get('cls'):
        return [code, 4] + enc_list([k.__name__ for k in exc_class(spec).__mro__], S)
    return [code, {'body': 1, 'same': 2, 'raise': 3}[spec['k']]]


def is_json(case):
    """request.is_json_requested: the Accept header starts with application/json"""
    if case.get('accept') is not None:
        return case['accept'].startswith('application/json')
    return bool(case['json'])


def url_repr(case):
    return repr(html.escape('http://localhost' + quote(request_path(case))))


def encode(case):
    if case['kind'] == 'status':
        tbl = enc_list(sorted(PHRASES.items()), lambda kv: [kv[0]] + S(kv[1]))
        a = case['arg']
        return [1] + tbl + ([0, a] if isinstance(a, int) else [1] + S(a))
    if model_skipped(case):
        return [1, 0, 0, 200]
    if case['kind'] == 'pair':
        blocks = [encode(v)[1:] for v in variants(case)]
        return [2, len(blocks)] + [x for b in blocks for x in [len(b)] + b]
    rt = case['routing']
    _ENC['case'] = case
    _ENC['prior'] = [m for h in case['before'] for m in h['muts']] + \
        ([m for h in rt['rhooks'] for m in h['muts']] if rt['k'] == 'ok' else [])
    handler = rt['h'] if rt['k'] == 'ok' else rt.get('partial') if rt['k'] == '404' else None
    eb, ea, er, ehd = enc_in_execution_order(case['before'], case['after'], rt['rhooks'] if rt['k'] == 'ok' else [], handler)
    if rt['k'] == '404':
        r = [0] + ([0] if ehd is None else [1] + ehd)
    elif rt['k'] == '405':
        r = [1] + S(','.join(sorted(other_verbs(case['method']))))
    else:
        r = [2] + er + ehd
    # the last registration for a code wins (dict assignment)
    eh = list({code: (code, spec) for code, spec in case['eh']}.values())
    tag = 0 if (case.get('cfg') or {}).get('catchall', True) else 3
    return ([tag, int(case['method'] == 'HEAD'), int(case['fw']), int(is_json(case))]
            + S(url_repr(case)) + S(request_path(case))
            + enc_list(eh, enc_eh) + eb + ea + r)


def T(cps):
    return ''.join(chr(c) for c in cps)


def dec_event(q):
    t = q.int()
    if t == 0:
        return ['hookB', q.int()]
    if t == 1:
        return ['routed']
    if t == 2:
        return ['rhook', q.int()]
    if t == 3:
        return ['handler']
    if t == 4:
        return ['hookA', q.int()]
    if t == 5:
        return ['close', q.int()]
    if t == 6:
        line = T(q.str())
        hl = q.list(lambda z: [T(z.str()), T(z.str())])
        return ['start', line, hl, q.bool()]
    if t == 7:
        return ['body', q.list(lambda z: z.str() if z.int() == 0 else 'bad')]
    if t == 8:
        return ['iter_raise']
    raise ValueError('event tag %d' % t)


def decode(out, case):
    if model_skipped(case):
        return dict(skipped=model_skipped(case))
    if case['kind'] == 'pair':
        q = Reader(out)
        n = q.int()
        res = []
        for v in variants(case)[:n]:
            res.append(decode(q.str(), v))
        return dict(pair=res)
    q = Reader(out)
    tag = q.int()
    if case['kind'] == 'status':
        if tag == 0:
            return dict(status='ok', code=q.int(), line=T(q.str()))
        return dict(status={1: 'ValueError', 2: 'unmodelled', 3: 'IndexError'}.get(tag, 'tag%d' % tag))
    if tag in (0, 1, 2):
        # 1: the catch-all is off / itself failed; 2: an exception the except clauses let through
        return dict(events=q.list(dec_event), escaped=tag != 0)
    return dict(model_tag=tag)


# --------------------------------------------------------------------------
# oracle: the property, on the recorded events
# --------------------------------------------------------------------------

def walk(x, f):
    """apply f to every dict of a JSON value"""
    if isinstance(x, dict):
        f(x)
        for v in x.values():
            walk(v, f)
    elif isinstance(x, list):
        for v in x:
            walk(v, f)


def mentions_content_length(case):
    found = []

    def f(d):
        for key in ('headers',):
            for n, v in d.get(key, []) if isinstance(d.get(key), list) else []:
                if n.lower() == 'content-length':
                    found.append(1)
        if d.get('m') in ('set', 'add') and d.get('n', '').lower() == 'content-length':
            found.append(1)
        if d.get('m') == 'update' and any(n.lower() == 'content-length' for n, _ in d['items']):
            found.append(1)
    walk(case, f)
    return bool(found)


def closables(case):
    """id -> does the object deliver body chunks when the framework takes it as the response body?
    (a file always; an iterable iff its first non-empty item is a str or bytes chunk) for every
    object of the program that has a close method"""
    ids = {}

    def f(d):
        if d.get('k') == 'file' and d.get('close'):
            ids[d['id']] = True
        if d.get('k') == 'iter' and d.get('close') and not d.get('list'):
            chunky = False
            for it in d['items']:
                if it['k'] != 'yield':
                    break
                o = it['o']
                if o['k'] == 'falsy' or (o['k'] == 'str' and not o['s']) or (o['k'] == 'bytes' and not o['b']):
                    continue
                chunky = o['k'] in ('str', 'bytes')
                break
            ids[d['id']] = chunky
    walk(case, f)
    return ids


def fails(h):
    return h['res']['k'] != 'ret' or any(m['m'] == 'bad' for m in h['muts'])


def crashes(h):
    """the program fails with an exception the framework has to answer with a 500"""
    if any(m['m'] == 'bad' for m in h['muts']):
        return True
    return is_raise(h['res']) and not passes_by_design(exc_class(h['res']))


def well_typed_iterables(case):
    """every iterable of the program yields, after leading empty items, only str or only bytes"""
    ok = [True]

    def f(d):
        if d.get('k') == 'iter':
            kinds = []
            for it in d['items']:
                if it['k'] != 'yield':
                    kinds.append('raise')
                    continue
                o = it['o']
                if o['k'] == 'falsy' or (o['k'] == 'str' and not o['s']) or (o['k'] == 'bytes' and not o['b']):
                    if kinds:          # an empty item after the first real one must have its type
                        kinds.append(o['k'])
                    continue
                kinds.append(o['k'])
            if kinds and kinds[0] in ('str', 'bytes') and any(k != kinds[0] for k in kinds[1:]):
                ok[0] = False
    walk(case, f)
    return ok[0]


def escape_by_design(case, name):
    """the exception that left Ombott.__call__ is one the program raised and its class is one of
    KeyboardInterrupt / SystemExit / MemoryError (or a subclass), or not an Exception at all"""
    found = []
    walk(case, lambda d: found.append(exc_class(d)) if is_raise(d) else None)
    return any(c.__name__ == name and passes_by_design(c) for c in found)


def oracle(case, obs):
    if case['kind'] == 'status':
        if obs.get('status') == 'ok':
            ln, code = obs['line'], obs['code']
            if not (100 <= code <= 999):
                return 'status code %r accepted' % code
            if not (len(ln) >= 5 and ln[:3].isascii() and ln[:3].isdigit() and ln[3] == ' ' and int(ln[:3]) == code):
                return 'status setter produced the line %r for code %d: not "NNN reason"' % (ln, code)
        return None
    if obs.get('hang'):
        return 'request did not terminate'
    if case['kind'] == 'pair':
        if 'pair' not in obs:
            return 'harness failure: %s' % obs
        for k, (o, v) in enumerate(zip(obs['pair'], variants(case))):
            f = oracle(v, o)
            if f:
                return 'request %d of the same application: %s' % (k + 1, f)
        return None
    if case['kind'] == 'respapi':
        r = obs.get('respapi')
        if r is None:
            return 'harness failure: %s' % obs
        code, line = status_of(case['status'])
        want = dict(first=[1], status=[line, line, code], closes=1, repr='X-A: v\nContent-Type: text/html; charset=UTF-8',
                    hd=[2, ['X-A', 'X-B'], 'u', True, '<HeaderDict: {}>'],
                    copy=['HTTPError', '201 Created', [['X-B', 'u'], ['Content-Type', 'text/html; charset=UTF-8'],
                                                       ['Set-Cookie', 'sid=v1']], None],
                    copy_multi='TypeError', copy_cls='AssertionError')
        got = json.loads(json.dumps(r))
        for k in want:
            if got.get(k) != want[k] and k != 'copy_multi':
                return 'BaseResponse.%s: got %r, expected %r' % (k, got.get(k), want[k])
        return None
    if 'events' not in obs:
        return 'harness failure: %s' % obs
    if obs['escaped']:
        n_start = sum(1 for e in obs['events'] if e[0] == 'start')
        v = escape_by_design(case, obs['escaped'])
        if v:
            # KeyboardInterrupt / SystemExit / MemoryError (and what is not an Exception) are passed on by
            # design; the response must not have started
            return 'start_response was called before %s was passed on' % obs['escaped'] if n_start else None
        if not (case.get('cfg') or {}).get('catchall', True):
            # configured: exceptions go to the server, which must not see a started response
            return 'catchall=False: start_response was called and then %s escaped' % obs['escaped'] if n_start else None
        return 'exception %s escaped Ombott.__call__' % obs['escaped']
    ev = obs['events']
    starts = [e for e in ev if e[0] == 'start']
    if len(starts) != 1:
        return 'start_response called %d times' % len(starts)
    if obs['problems']:
        # a non-bytes chunk after a well-typed first chunk is outside the property (the quantifier covers
        # iterables of str or of bytes), and so is a header name/value the handler chose badly (C14)
        typed = well_typed_iterables(case)
        pr = [p for p in obs['problems'] if not (p.startswith('chunk of type') and not typed)]
        if pr:
            return 'PEP 3333 validator: ' + '; '.join(pr[:3])
    start = starts[0]
    code = int(start[1][:3])
    body = [e for e in ev if e[0] == 'body']
    if len(body) != 1:
        return 'no body iteration recorded'
    chunks = body[0][1]
    total = sum(len(c) for c in chunks if c != 'bad')
    nobody = case['method'] == 'HEAD' or 100 <= code < 200 or code in (204, 304)
    if nobody and total:
        return 'a %d response to %s carries %d body bytes' % (code, case['method'], total)
    raised = any(e[0] == 'iter_raise' for e in ev)
    if raised and not chunks:
        return 'iterating the returned object raised before the first body chunk'
    if not nobody and not raised and not mentions_content_length(case) and not start[3]:
        cl = [v for n, v in start[2] if n.lower() == 'content-length']
        if len(cl) > 1:
            return 'several Content-Length headers'
        if cl and cl[0] != str(total):
            return 'framework-set Content-Length %s but %d body bytes returned' % (cl[0], total)
    # close: never twice; an object that produced output (items were taken from it and they are body
    # chunks) exactly once, by the framework (suppressed body) or by the server
    touched = {e[1] for e in ev if e[0] in ('next', 'read')}
    for oid, chunky in sorted(closables(case).items()):
        n = sum(1 for e in ev if e[0] == 'close' and e[1] == oid)
        if n > 1:
            return 'object %d closed %d times' % (oid, n)
        if oid in touched and chunky and n == 0 and not start[3]:
            return 'iterable %d produced output but was never closed' % oid
    # hooks
    nb, na = len(case['before']), len(case['after'])
    hb = [e[1] for e in ev if e[0] == 'hookB']
    first_fail = next((i for i, h in enumerate(case['before']) if fails(h)), None)
    want_b = list(range(nb if first_fail is None else first_fail + 1))
    if hb != want_b:
        return 'before_request hooks ran as %s, expected %s' % (hb, want_b)
    idx = {k: [i for i, e in enumerate(ev) if e[0] == k] for k in ('hookB', 'routed', 'handler', 'hookA', 'start')}
    if first_fail is None:
        if len(idx['routed']) != 1:
            return 'routing happened %d times' % len(idx['routed'])
        if hb and idx['hookB'][-1] > idx['routed'][0]:
            return 'a before_request hook ran after routing'
    elif idx['routed']:
        return 'routing happened although before_request hook %d failed' % first_fail
    ha = [e[1] for e in ev if e[0] == 'hookA']
    # the after_request list when its emit starts: reverse registration order, edited by the
    # add_hook / remove_hook calls of what ran before (edits during an emit never change that emit)
    rt = case['routing']
    progs = {('hookB', i): h for i, h in enumerate(case['before'])}
    if rt['k'] == 'ok':
        progs.update({('rhook', i): h for i, h in enumerate(rt['rhooks'])})
        progs[('handler',)] = rt['h']
    elif rt['k'] == '404' and rt.get('partial') is not None:
        progs[('handler',)] = rt['partial']
    alist = list(range(na - 1, -1, -1))
    for e in ev:
        if e[0] == 'hookA':
            break
        if e[0] not in ('hookB', 'rhook', 'handler'):
            continue
        for m in progs.get(tuple(e[:2]), {}).get('muts', []):
            if m.get('m') == 'rmhook' and m['after'] and m['j'] in alist:
                alist.remove(m['j'])
            elif m.get('m') == 'addhook' and m['after']:
                alist.insert(0, m['j'])
    first_fail_a = next((k for k, j in enumerate(alist) if j < na and fails(case['after'][j])), None)
    want_a = alist if first_fail_a is None else alist[:first_fail_a + 1]
    if ha != want_a:
        return 'after_request hooks ran as %s, expected %s' % (ha, want_a)
    if ha:
        lower = max(idx['hookB'] + idx['routed'] + idx['handler'] + [-1])
        if idx['hookA'][0] < lower:
            return 'an after_request hook ran before the handler'
        if idx['hookA'][-1] > idx['start'][0]:
            return 'an after_request hook ran after start_response'
    if len(idx['handler']) > 1:
        return 'handler called %d times' % len(idx['handler'])
    # routing happens after the before hooks, on the request as they left it
    if first_fail is None:
        rt_ = case['routing']
        reaches = (rt_['k'] == 'ok' and not any(fails(h) for h in rt_['rhooks'])) or \
            (rt_['k'] == '404' and rt_.get('partial') is not None)
        if reaches and not idx['handler']:
            return 'the request%s is routed to a handler, but no handler was called' % (
                ' (as rewritten by a before_request hook)' if case.get('rewrite') else '')
        if not reaches and idx['handler'] and rt_['k'] != 'ok':
            return 'a handler was called although routing has no handler for this request'
    # a crash becomes a 500 (when the application did not install its own 500 handler)
    rt = case['routing']
    crash = (first_fail is not None and crashes(case['before'][first_fail])) or \
        (first_fail is None and rt['k'] == 'ok' and not any(fails(h) for h in rt['rhooks']) and crashes(rt['h']))
    if crash and first_fail_a is None and not any(c == 500 for c, _ in case['eh']) and code != 500:
        return 'handler crash answered with %d' % code
    # ... and so does a crash of the first next() that would deliver an item of the handler's iterable
    if first_fail is None and rt['k'] == 'ok' and not any(fails(h) for h in rt['rhooks']) and not fails(rt['h']) \
            and first_fail_a is None and not any(c == 500 for c, _ in case['eh']):
        o = rt['h']['res']['o']
        if o['k'] == 'iter' and not o.get('list'):
            for it in o['items']:
                if it['k'] == 'yield' and (it['o']['k'] == 'falsy' or (it['o']['k'] == 'str' and not it['o']['s'])
                                           or (it['o']['k'] == 'bytes' and not it['o']['b'])):
                    continue
                if is_raise(it) and not passes_by_design(exc_class(it)) and code != 500:
                    return 'the first next() of the returned iterable raised %s, answered with %d' % (
                        exc_class(it).__name__, code)
                break
    return None


# --------------------------------------------------------------------------
# generators
# --------------------------------------------------------------------------

TEXTS = ['a', 'hello', 'x' * 40, 'é', '€\U0001F600', '<b>&"\'', '\ud800', 'line\nbreak', ' ']
HVALS = ['v', '1', 'a b', 'é', '€', 'x' * 30, '\ud800', '']
# values _hval turns into text; equal across types (1 == 1.0 == True, 0 == 0.0 == False): a memoising _hval mixes them up
TYPED_HVALS = [1, 1.0, True, 0, 0.0, False, None, 2, 2.0, -1, 1e3]
CTYPES = ['text/plain', 'text/plain; charset=latin1', 'text/html; charset=UTF-8', 'text/plain; charset=ascii',
          'text/plain; charset=bogus-xyz', 'application/json', 'text/plain;charset=Latin-1;x=y',
          'x; charset=utf8; charset= iso-8859-1 ', 'text/plain; charset=', 'charset=']
HNAMES = ['X-A', 'X-B', 'Content-Type', 'Content-Length', 'content-type', 'Allow', 'Last-Modified']
LINES = ['200 OK', '404 Brain not found', '299 x', ' 201 Created ', '204 none', '304 nm', '101 sw', '500 Oops',
         '102 P', '520 Origin Unreachable', '999 Nine', '199 Early']


COOKIE_VALUES = ['v1', 'a b', 'x', '5 \u20ac', '\u6f22\u5b57', '\u00e9', '\x80\u00ff', 'a;b,c"d']


class Ctx:
    def __init__(self, rng, edits=True):
        self.rng = rng
        self.next_id = 0
        self.edits = edits          # may programs call add_hook / remove_hook?
        self.redirects = edits      # may the handler call redirect()? (single-request cases only)
        self.escapes = edits        # may programs raise KeyboardInterrupt / ... / a non-Exception? (C03's own cases only)
        self.next_hook = 10

    def oid(self):
        self.next_id += 1
        return self.next_id


def g_text(rng):
    return rng.choice(TEXTS) if rng.random() < 0.8 else ''.join(rng.choice('abé ') for _ in range(rng.randrange(0, 6)))


def g_bytes(rng):
    return [rng.choice([0, 10, 65, 200, 255]) for _ in range(rng.choice([0, 1, 3, 10]))] if rng.random() < 0.9 else []


def g_header(rng):
    n = rng.choice(HNAMES)
    if n.lower() == 'content-type':
        v = rng.choice(CTYPES)
    elif n == 'Content-Length':
        v = str(rng.choice([0, 3, 5, 1000]))
    elif rng.random() < 0.12:
        v = rng.choice(TYPED_HVALS)
    else:
        v = rng.choice(HVALS) if rng.random() > 0.03 else '\ud800'
    return [n, v]


def g_status(rng):
    if rng.random() < 0.85:
        return rng.choice(STATUSES)
    return rng.choice(LINES)


def g_resp(c, depth, err):
    rng = c.rng
    if err:
        # the error page shows str(body): keep it to objects with a deterministic text
        body = g_out(c, 0, allow=('falsy', 'str', 'bytes', 'other', 'file', 'iter'))
        status = g_status(rng) if rng.random() < 0.5 else rng.choice([400, 404, 500, 503, 418])
    else:
        body = g_out(c, depth - 1)
        status = g_status(rng)
    return dict(status=status, ctor=rng.choice(['append', 'append', 'list', 'dict', 'kw']),
                headers=[g_header(rng) for _ in range(rng.choice([0, 0, 1, 2]))],
                cookies=[[rng.choice(['sid', 'k']), rng.choice(COOKIE_VALUES)] for _ in range(rng.choice([0, 0, 0, 1, 2]))],
                body=body)


def g_raise(c, site=None):
    """a raise; the class is a dimension: Boom (the harness's own), any class of the pool.  StopIteration from
    next() means "no more items", so it is no raise at that site."""
    rng = c.rng
    if rng.random() < 0.4:
        return dict(k='raise_exc')
    names = ESCAPE_NAMES if c.escapes and rng.random() < 0.25 else ORDINARY_NAMES
    if site == 'item':
        names = [n for n in names if n != 'StopIteration']
    return dict(k='raise_exc', cls=rng.choice(names))


def g_item(c, depth, first_kind=None):
    rng = c.rng
    r = rng.random()
    if r < 0.08:
        return g_raise(c, 'item')
    if r < 0.14 and depth > 0:
        return dict(k='raise_http', err=rng.random() < 0.6, r=g_resp(c, depth - 1, True))
    if r < 0.22 and depth > 0:
        e = rng.random() < 0.5
        return dict(k='yield', o=dict(k='http', err=e, r=g_resp(c, depth - 1, e)))
    if r < 0.27:
        return dict(k='yield', o=dict(k='other', v=rng.choice(['int', 'object', 'float'])))
    if r < 0.42:
        return dict(k='yield', o=dict(k='falsy', v=rng.choice(list(FALSY))))
    kind = first_kind or rng.choice(['str', 'bytes'])
    if rng.random() < 0.07:
        kind = 'bytes' if kind == 'str' else 'str'
    if kind == 'str':
        return dict(k='yield', o=dict(k='str', s=g_text(rng) if rng.random() < 0.85 else ''))
    return dict(k='yield', o=dict(k='bytes', b=g_bytes(rng)))


def g_out(c, depth, allow=None):
    rng = c.rng
    kinds = ['falsy', 'str', 'bytes', 'iter', 'iter', 'file', 'other']
    if depth > 0:
        kinds += ['http', 'http', 'http']
    if allow:
        kinds = [k for k in kinds if k in allow]
    k = rng.choice(kinds)
    if k == 'falsy':
        return dict(k='falsy', v=rng.choice(list(FALSY)))
    if k == 'str':
        return dict(k='str', s=g_text(rng))
    if k == 'bytes':
        return dict(k='bytes', b=g_bytes(rng))
    if k == 'other':
        return dict(k='other', v=rng.choice(['int', 'object', 'float']))
    if k == 'file':
        return dict(k='file', id=c.oid(), close=rng.random() < 0.6, iter=rng.random() < 0.5,
                    content=g_bytes(rng) if rng.random() < 0.8 else [])
    if k == 'iter':
        n = rng.choice([0, 1, 2, 3, 4])
        fk = rng.choice(['str', 'bytes'])
        items = [g_item(c, depth, fk) for _ in range(n)]
        as_list = rng.random() < 0.3 and items and all(i['k'] == 'yield' for i in items)
        box = None if as_list or rng.random() < 0.7 else rng.choice(['gen', 'iter'])
        return dict(k='iter', id=c.oid(), close=(not as_list) and rng.random() < 0.6, items=items, list=bool(as_list),
                    box=box)
    e = rng.random() < 0.5
    return dict(k='http', err=e, r=g_resp(c, depth, e))


def g_hook_edit(c):
    rng = c.rng
    after = rng.random() < 0.5
    if rng.random() < 0.7:
        return dict(m='rmhook', after=after, j=rng.choice([0, 0, 1, 2]))
    c.next_hook += 1
    return dict(m='addhook', after=after, j=c.next_hook)


COOKIE_OPTS = [dict(path='/x'), dict(max_age=60), dict(max_age_td=[1, 30]), dict(expires=0), dict(expires=86400 * 365),
               dict(secure=True, httponly=True), dict(domain='example.com', path='/'), dict(samesite='Lax')]
# a control character anywhere in a header value, in particular as its LAST character (a line read from a file and
# not stripped): refused by _hval whichever way the value gets in
CTL_VALUES = ['a\nb', 'a\rb', '\x00', 'x\n', 'line one\n', 'x\r', 'x\x00', '\n', 'x\r\n', 'x\n\n', '\nx', 'a\x00b', 'x\n ']
CTL_HOWS = ['set', 'append', 'ctype', 'cookie-path', 'cookie-domain']
BAD_MUTS = [dict(m='bad', what='ctl', v=v, how=how) for v in CTL_VALUES for how in CTL_HOWS if how == 'set' or v[-1] in '\n\r\x00'] + [
            dict(m='bad', what='type'), dict(m='bad', what='status', v=99), dict(m='bad', what='status', v=1000),
            dict(m='bad', what='status', v='200'), dict(m='bad', what='cookie-type'), dict(m='bad', what='cookie-long')] * 4


def g_extra_mut(rng, c):
    """the less common ways of changing the response object"""
    r = rng.random()
    if r < 0.12:
        return dict(m='del', n=rng.choice(HNAMES), via=rng.choice(['pop', 'del']))
    if r < 0.18:
        return dict(m='clear', ns=None)
    if r < 0.26:
        return dict(m='clear', ns=rng.sample(HNAMES, rng.choice([1, 2])))
    if r < 0.36:
        # HeaderDict.update stores the values as they are (no _hval): only str values are well-defined
        return dict(m='update', items=[[n, v if isinstance(v, str) else str(v)]
                                       for n, v in (g_header(rng) for _ in range(rng.choice([1, 2])))])
    if r < 0.48:
        n, v = rng.choice([('Content-Type', rng.choice(CTYPES)), ('Content-Length', rng.choice([0, 3, 7])),
                           ('Expires', rng.choice([0, 86400, 1700000000]))])
        return dict(m='set', n=n, v=v, via='prop')
    if r < 0.72:
        c.next_hook += 1
        return dict(m='cookie', n='o%d' % c.next_hook, v=rng.choice(COOKIE_VALUES), opts=rng.choice(COOKIE_OPTS))
    if r < 0.86:
        return dict(m='delcookie', n=rng.choice(['sid', 'k', 'gone'] if c.edits else ['gone', 'old']),
                    opts=rng.choice([None, dict(path='/x')]))
    return dict(rng.choice(BAD_MUTS))


def g_muts(rng, c=None):
    out = []
    if c is not None and c.edits and rng.random() < 0.12:
        out.append(g_hook_edit(c))
    if c is not None and rng.random() < 0.12:
        out.append(g_extra_mut(rng, c))
    for _ in range(rng.choice([0, 0, 0, 1, 2])):
        r = rng.random()
        if r < 0.3:
            out.append(dict(m='status', v=g_status(rng)))
        elif r < 0.6:
            n, v = g_header(rng)
            out.append(dict(m='set', n=n, v=v))
        elif r < 0.8:
            n, v = g_header(rng)
            out.append(dict(m='add', n=n, v=v))
        else:
            out.append(dict(m='cookie', n=rng.choice(['sid', 'k']), v=rng.choice(COOKIE_VALUES)))
    return out


LOCATIONS = ['/next', 'other', 'http://example.com/x?y=1', '../up', '?q=1', '//host/p', 'é']


def g_hprog(c, depth, p_fail=0.3):
    rng = c.rng
    r = rng.random()
    if r < p_fail / 2:
        res = g_raise(c)
    elif r < p_fail:
        e = rng.random() < 0.6
        res = dict(k='raise_http', err=e, r=g_resp(c, depth, e))
        if e and rng.random() < 0.3:
            # ombott.abort(code, text)
            res = dict(k='raise_http', err=True, via='abort',
                       r=dict(status=rng.choice([400, 403, 404, 418, 500, 503, 999]), headers=[], cookies=[],
                              body=dict(k='str', s=rng.choice(['no', 'Unknown Error', '']))))
    elif r < p_fail + 0.05 and c.redirects:
        res = dict(k='redirect', loc=rng.choice(LOCATIONS), code=rng.choice([None, None, 301, 307]))
    else:
        res = dict(k='ret', o=g_out(c, depth))
    return dict(muts=g_muts(rng, c), res=res)


def g_hook(c):
    rng = c.rng
    r = rng.random()
    if r < 0.8:
        res = dict(k='ret', o=dict(k='falsy', v='none'))
    elif r < 0.9:
        res = g_raise(c)
    else:
        e = rng.random() < 0.5
        res = dict(k='raise_http', err=e, r=g_resp(c, 1, e))
    return dict(muts=g_muts(rng, c) if rng.random() < 0.4 else [], res=res)


def g_case(rng, edits=True):
    c = Ctx(rng, edits)
    method = rng.choice(VERBS) if rng.random() < 0.6 else rng.choice(['GET', 'HEAD'])
    depth = rng.choice([0, 1, 1, 2, 2, 3])
    r = rng.random()
    if r < 0.08:
        routing = dict(k='404', partial=None)
    elif r < 0.14:
        routing = dict(k='404', partial=g_hprog(c, depth))
    elif r < 0.2:
        routing = dict(k='405')
    else:
        regs = [method, 'ANY'] + (['GET'] if method == 'HEAD' else [])
        routing = dict(k='ok', reg=rng.choice(regs), rhooks=[g_hook(c) for _ in range(rng.choice([0, 0, 0, 1, 2]))],
                       h=g_hprog(c, depth))
    eh = []
    if rng.random() < 0.3:
        for _ in range(rng.choice([1, 1, 2])):
            code = rng.choice([404, 405, 500, 500, 400, 503, 418, 999])
            k = rng.choice(['const', 'const', 'body', 'same', 'raise'])
            spec = dict(k='const', o=g_out(c, 1)) if k == 'const' else dict(k=k)
            if k == 'raise' and rng.random() < 0.6:
                spec['cls'] = g_raise(c).get('cls') or 'OSError'
            eh.append([code, spec])
    extra = {}
    if not edits:
        pass
    elif rng.random() < 0.15:
        extra['cfg'] = dict(via=rng.choice(['ctor', 'setup']), catchall=rng.random() < 0.5,
                            debug=rng.random() < 0.3)
    if edits and rng.random() < 0.3:
        extra['hookreg'] = rng.choice(['on', 'deco', 'mixed'])
    if edits and rng.random() < 0.2:
        extra['accept'] = rng.choice(ACCEPTS)[0]
    if edits and rng.random() < 0.15:
        extra['proto'] = 'HTTP/1.0'
    if rng.random() < 0.12:
        extra['reqhdr'] = dict(rng.choice(REQ_ODDITIES))
        if rng.random() < 0.7:
            lim = dict(rng.choice(BODY_LIMITS))
            extra['cfg'] = dict(extra.get('cfg') or dict(via=rng.choice(['ctor', 'setup']), catchall=True, debug=False), **lim)
    if edits and rng.random() < 0.03:
        # KeyboardInterrupt / SystemExit / MemoryError somewhere
        where = rng.choice(['handler', 'before', 'after'])
        fatal = dict(muts=[], res=dict(k='raise_fatal', exc=rng.choice(sorted(FATAL))))
        extra['_fatal'] = [where, fatal]
    case = dict(kind='req', method=method, fw=rng.random() < 0.4, json=rng.random() < 0.25,
                path='special' if rng.random() < 0.2 else rng.choice(sorted(PATH_TAILS)) if rng.random() < 0.12 else 'plain',
                before=[g_hook(c) for _ in range(rng.choice([0, 0, 1, 2, 3]))],
                after=[g_hook(c) for _ in range(rng.choice([0, 0, 1, 2, 3]))],
                routing=routing, eh=eh)
    if edits and rng.random() < 0.08:
        # a before_request hook rewrites where the request goes (prefix stripping, method override)
        rw, muts = {}, []
        if rng.random() < 0.8:
            rw['path'] = rng.choice(['/v1', '/en', '/zz/elsewhere']) + request_path(case) if rng.random() < 0.7 else '/other'
            muts.append(dict(m='env', key='PATH_INFO', v=request_path(case)))
        if rng.random() < 0.5 and method != 'HEAD':
            rw['method'] = rng.choice([v for v in VERBS if v != method])
            muts.append(dict(m='env', key='REQUEST_METHOD', v=method))
        if muts:
            k = rng.randrange(0, len(case['before']) + 1)
            hook = dict(muts=muts, res=dict(k='ret', o=dict(k='falsy', v='none')))
            if case['before'] and rng.random() < 0.5:
                k = min(k, len(case['before']) - 1)
                case['before'][k] = dict(case['before'][k], muts=muts + case['before'][k]['muts'])
            else:
                case['before'].insert(k, hook)
            # the rewrite only happens if every earlier before hook returns
            if not any(fails(h) for h in case['before'][:k]):
                extra['rewrite'] = rw
    fatal = extra.pop('_fatal', None)
    case.update(extra)
    if fatal is not None:
        where, prog = fatal
        if where == 'before':
            case['before'] = case['before'] + [prog]
        elif where == 'after':
            case['after'] = [prog] + case['after']
        elif case['routing']['k'] == 'ok':
            case['routing']['h'] = prog
        else:
            case['before'] = [prog]
    return case


STATUS_ARGS = [200, 100, 999, 99, 1000, 0, -5, 404, 418, 299, '200 OK', '404 Brain not found', ' 201 Created ',
               '200', 'abc def', '99 low', '1000 high', '0404 zero', '+404 plus', '404\tx y', '20 0 x', ' ',
               '４０４ wide', '4_0_4 u', '404  two spaces', '404 ']


def g_pair(rng):
    """one application, two requests; its handler (or a before hook) raises / returns a response
    object it keeps between requests"""
    c = Ctx(rng, edits=False)
    case = g_case(rng, edits=False)
    err = rng.random() < 0.7
    r = g_resp(c, 1, err)
    # the object lives across requests: its body must not be a one-shot iterator / file
    r['body'] = dict(k='str', s=rng.choice(['Access denied', 'no', '', 'é'])) if err or rng.random() < 0.7 \
        else dict(k='bytes', b=g_bytes(rng))
    where = rng.random()
    if where < 0.45:
        h = dict(muts=g_muts(rng, c), res=dict(k='raise_http', err=err, r=r, shared='S'))
    elif where < 0.8:
        h = dict(muts=g_muts(rng, c), res=dict(k='ret', o=dict(k='http', err=err, r=r, shared='S')))
    else:
        h = g_hprog(c, 1)
        case['before'] = [dict(muts=[], res=dict(k='raise_http', err=err, r=r, shared='S'))]
    case['routing'] = dict(k='ok', reg='ANY', rhooks=[], h=h)
    case['kind'] = 'pair'
    case['second'] = dict(path='special' if case['path'] == 'plain' or rng.random() < 0.5 else 'plain',
                          json=rng.random() < 0.3, method=rng.choice(['GET', 'GET', 'POST', 'HEAD']),
                          fw=rng.random() < 0.2)
    if rng.random() < 0.3:
        # the second request declares a body the application will not take (and never reads)
        case['second']['reqhdr'] = dict(rng.choice(REQ_ODDITIES))
        case['cfg'] = dict(case.get('cfg') or dict(via='ctor', catchall=True, debug=False), **rng.choice(BODY_LIMITS))
    return case


def gen(rng, n):
    for i in range(n):
        if rng.random() < 0.06:
            yield g_pair(rng)
            continue
        if rng.random() < 0.02:
            a = rng.choice(STATUS_ARGS)
            if rng.random() < 0.3:
                a = rng.randrange(90, 1010)
            yield dict(kind='status', arg=a)
        else:
            yield g_case(rng)


def ret(o, **kw):
    d = dict(kind='req', method='GET', fw=False, json=False, path='plain', before=[], after=[],
             routing=dict(k='ok', rhooks=[], h=dict(muts=[], res=dict(k='ret', o=o))), eh=[])
    d.update(kw)
    return d


def _str(s):
    return dict(k='str', s=s)


def _resp(status, body, err=False, headers=(), cookies=()):
    return dict(k='http', err=err, r=dict(status=status, headers=[list(h) for h in headers],
                                          cookies=[list(c) for c in cookies], body=body))


def _iter(oid, items, close=True, lst=False, box=None):
    return dict(k='iter', id=oid, close=close, items=[dict(k='yield', o=i) if 'k' in i and i['k'] not in
                                                     ('raise_exc', 'raise_http', 'raise_fatal', 'yield') else i for i in items],
                list=lst, box=box)


OK_HOOK = dict(muts=[], res=dict(k='ret', o=dict(k='falsy', v='none')))
BAD_HOOK = dict(muts=[], res=dict(k='raise_exc'))


def corpus():
    hello = _str('hello')
    cs = []
    # F3: every 1xx, 204, 304 and HEAD carry no body
    for st in (100, 101, 102, 103, 199, 204, 304, 200):
        cs.append(ret(_resp(st, hello)))
        cs.append(ret(hello, routing=dict(k='ok', reg='GET', rhooks=[],
                                          h=dict(muts=[dict(m='status', v=st)], res=dict(k='ret', o=hello)))))
    cs.append(ret(hello, method='HEAD'))
    cs.append(ret(_iter(1, [_str(''), _str('a'), _str('b')]), method='HEAD'))
    cs.append(ret(_iter(1, [_str(''), _str('a'), _str('b')])))
    cs.append(ret(_iter(1, [dict(k='bytes', b=[1, 2]), dict(k='bytes', b=[])], close=False, lst=True)))
    cs.append(ret(_iter(1, [_resp(404, hello, err=True)])))                       # abandoned iterable
    cs.append(ret(_iter(1, [dict(k='raise_exc')])))
    cs.append(ret(_iter(1, [])))
    cs.append(ret(_iter(1, [dict(k='other', v='int')])))
    cs.append(ret(_iter(1, [_str('\ud800')])))                                    # lazy encode failure
    cs.append(ret(_str('\ud800')))                                                # catch-all
    cs.append(ret(_str('€'), path='special',
                  routing=dict(k='ok', reg='ANY', rhooks=[],
                               h=dict(muts=[dict(m='set', n='Content-Type', v='text/plain; charset=latin1')],
                                      res=dict(k='ret', o=_str('€'))))))
    for fw in (False, True):
        for m in ('GET', 'HEAD'):
            for cl, it in ((True, False), (False, True), (False, False), (True, True)):
                cs.append(ret(dict(k='file', id=1, close=cl, iter=it, content=[65, 66]), fw=fw, method=m))
    cs.append(ret(dict(k='other', v='int')))
    cs.append(ret(dict(k='falsy', v='none')))
    cs.append(ret(hello, routing=dict(k='404', partial=None)))
    cs.append(ret(hello, routing=dict(k='404', partial=None), json=True))
    cs.append(ret(hello, routing=dict(k='405'), method='DELETE'))
    cs.append(ret(hello, routing=dict(k='404', partial=dict(muts=[], res=dict(k='ret', o=hello)))))
    cs.append(ret(hello, routing=dict(k='ok', reg='GET', rhooks=[], h=dict(muts=[], res=dict(k='raise_exc')))))
    cs.append(ret(hello, routing=dict(k='ok', reg='GET', rhooks=[], h=dict(muts=[], res=dict(k='raise_exc'))), json=True))
    cs.append(ret(hello, before=[OK_HOOK, BAD_HOOK, OK_HOOK], after=[OK_HOOK, OK_HOOK]))
    cs.append(ret(hello, before=[OK_HOOK], after=[OK_HOOK, BAD_HOOK, OK_HOOK]))
    cs.append(ret(hello, routing=dict(k='404', partial=None), before=[OK_HOOK, OK_HOOK], after=[OK_HOOK, OK_HOOK]))
    # the 1000-iteration guard
    cs.append(ret(_resp(500, hello, err=True), eh=[[500, dict(k='same')]]))
    cs.append(ret(_resp(418, dict(k='bytes', b=[1]), err=True), json=True))       # json.dumps TypeError -> catch-all
    cs.append(ret(_resp(418, _iter(2, [_str('x')]), err=True), eh=[[418, dict(k='body')]]))
    cs.append(ret(_resp(200, _resp(201, _resp(202, hello, cookies=[('k', 'x')]), headers=[('X-A', 'v')]),
                        cookies=[('sid', 'v1')])))
    cs.append(ret(_resp(200, hello, headers=[('X-A', '\ud800')])))                 # headerlist raises -> catch-all
    cs.append(ret(_resp(200, hello, headers=[('X-A', '\ud800')]), method='HEAD'))  # F31: no body for HEAD there either
    cs.append(ret(_resp(204, hello, headers=[('Content-Type', 'text/plain'), ('X-A', 'v')])))
    cs.append(ret(_resp(304, hello, headers=[('Content-Length', '5'), ('Allow', 'GET'), ('X-A', 'v')])))
    cs.append(ret(_resp(200, hello, headers=[('Content-Length', '1000')])))
    # a container with close() whose __iter__ returns another object (seeded change: close looked up on iter(out))
    for box in ('gen', 'iter'):
        for m in ('GET', 'HEAD'):
            cs.append(ret(_iter(1, [_str(''), _str('a'), _str('b')], box=box), method=m))
            cs.append(ret(_iter(1, [dict(k='falsy', v='none'), dict(k='bytes', b=[1, 2]), dict(k='bytes', b=[3])], box=box),
                          method=m))
            cs.append(ret(_resp(200, _iter(1, [_str('x')], box=box)), method=m))
    # hooks that edit the hook lists while they run (seeded change: emit iterates the live list)
    def hk(*muts, fail=False):
        return dict(muts=list(muts), res=dict(k='raise_exc') if fail else dict(k='ret', o=dict(k='falsy', v='none')))
    rm = lambda after, j: dict(m='rmhook', after=after, j=j)
    add = lambda after, j: dict(m='addhook', after=after, j=j)
    for rt in (None, dict(k='404', partial=None)):
        kw = {} if rt is None else dict(routing=rt)
        cs.append(ret(hello, before=[hk(rm(False, 0)), hk(), hk()], after=[hk(), hk(), hk()], **kw))     # one-shot before hook
        cs.append(ret(hello, before=[hk(), hk(rm(False, 0)), hk()], after=[hk()], **kw))                 # removes an earlier one
        cs.append(ret(hello, before=[hk(rm(False, 2)), hk(), hk()], **kw))                               # removes a later one
        cs.append(ret(hello, before=[hk(add(False, 11)), hk()], **kw))                                   # adds one
        cs.append(ret(hello, before=[hk()], after=[hk(), hk(), hk(rm(True, 2))], **kw))                  # one-shot after hook
        cs.append(ret(hello, after=[hk(), hk(rm(True, 2)), hk()], **kw))                                 # after hook removes an earlier-called one
        cs.append(ret(hello, after=[hk(rm(True, 1)), hk(), hk(rm(True, 0))], **kw))
        cs.append(ret(hello, after=[hk(), hk(add(True, 12))], **kw))
        cs.append(ret(hello, before=[hk(rm(True, 1)), hk(add(True, 13))], after=[hk(), hk(), hk()], **kw))   # before hooks edit the after list
    cs.append(ret(hello, after=[hk(), hk(), hk()],
                  routing=dict(k='ok', rhooks=[], h=dict(muts=[rm(True, 0), add(True, 14)], res=dict(k='ret', o=hello)))))
    # one HTTPError instance raised by two requests of one application (seeded change: apply adopts its header dict)
    denied = dict(status=403, headers=[], cookies=[], body=_str('Access denied'))
    for sec in (dict(path='special'), dict(path='special', json=True), dict(method='HEAD')):
        cs.append(dict(ret(hello, routing=dict(k='ok', reg='ANY', rhooks=[],
                                               h=dict(muts=[], res=dict(k='raise_http', err=True, r=denied, shared='D')))),
                       kind='pair', second=sec))
    cs.append(dict(ret(dict(k='http', err=False, shared='R',
                            r=dict(status=200, headers=[['X-A', 'v']], cookies=[], body=_str('abc'))),
                       routing=None), kind='pair', second=dict(path='special')))
    cs[-1]['routing'] = dict(k='ok', reg='ANY', rhooks=[],
                             h=dict(muts=[], res=dict(k='ret', o=dict(k='http', err=True, shared='E', r=denied))))
    # cookie values outside Latin-1 / in 0x80-0xFF (seeded change: Set-Cookie without the utf8 -> latin1 round trip)
    for v in COOKIE_VALUES:
        cs.append(ret(hello, routing=dict(k='ok', rhooks=[],
                                          h=dict(muts=[dict(m='cookie', n='sid', v=v)], res=dict(k='ret', o=hello)))))
        cs.append(ret(_resp(200, hello, cookies=[('k', v)])))
    # ---- audit round: configuration paths, module-level helpers, the rest of the response API ----
    def prog(res, *muts):
        return dict(k='ok', rhooks=[], h=dict(muts=list(muts), res=res))
    crash = prog(dict(k='raise_exc'))
    bad_hdr = ret(_resp(200, hello, headers=[('X-A', '\ud800')]))
    for via in ('ctor', 'setup'):
        for catchall in (True, False):
            for base in (ret(_str('\ud800')), bad_hdr, ret(hello), ret(hello, routing=crash),
                         ret(_iter(1, [_str('\ud800')])), ret(_resp(418, dict(k='bytes', b=[1]), err=True), json=True)):
                cs.append(dict(base, cfg=dict(via=via, catchall=catchall, debug=False)))
        for base in (ret(hello, routing=crash), ret(hello, routing=crash, json=True), ret(_str('\ud800')),
                     ret(hello, routing=dict(k='404', partial=None)), ret(_iter(1, [dict(k='raise_exc')]))):
            cs.append(dict(base, cfg=dict(via=via, catchall=True, debug=True)))
    for exc in sorted(FATAL):
        f = dict(k='raise_fatal', exc=exc)
        cs.append(ret(hello, routing=prog(f), before=[OK_HOOK], after=[OK_HOOK]))
        cs.append(ret(hello, before=[dict(muts=[], res=f)], after=[OK_HOOK]))
        cs.append(ret(hello, after=[OK_HOOK, dict(muts=[], res=f)]))
        cs.append(ret(_iter(1, [dict(k='raise_exc')]), eh=[[500, dict(k='raise')]], routing=prog(f)))
    # every class of the pool at every raise site: handler, before / after hook, route hook, first next() of the
    # body (iterator and generator), error handler.  Only KeyboardInterrupt / SystemExit / MemoryError (subclasses
    # included) and non-Exceptions may reach the server; everything else is answered.
    for name in sorted(EXC_POOL):
        f = dict(k='raise_exc', cls=name)
        cs.append(ret(hello, routing=prog(f), before=[OK_HOOK], after=[OK_HOOK]))
        cs.append(ret(hello, before=[dict(muts=[], res=f)], after=[OK_HOOK], json=name.startswith('C')))
        cs.append(ret(hello, after=[OK_HOOK, dict(muts=[], res=f)]))
        cs.append(ret(hello, routing=dict(k='ok', rhooks=[dict(muts=[], res=f)], h=dict(muts=[], res=dict(k='ret', o=hello)))))
        if name != 'StopIteration':
            cs.append(ret(_iter(1, [_str(''), f, _str('x')])))
            cs.append(ret(_iter(1, [f], box='gen')))
        cs.append(ret(_resp(418, hello, err=True), eh=[[418, dict(k='raise', cls=name)]]))
        cs.append(ret(hello, routing=prog(f), method='HEAD', cfg=dict(via='ctor', catchall=False, debug=False)))
    # lists / tuples that start with empty chunks: the first REAL item decides (str is encoded, a response object
    # takes over, bytes pass), whatever the type of the empty ones before it
    # (seeded change: a fast path returns a list whose first item is bytes as it is)
    eb, es = dict(k='bytes', b=[]), _str('')
    for kind in (True, 'tuple'):
        for lead in ([eb], [eb, eb], [eb, es], [es, eb], [dict(k='falsy', v='none'), eb]):
            for nxt in ([_str('hello')], [_str('héllo wörld')], [_str('€'), _str('x')], [_resp(404, _str('nf'), err=True)],
                        [_resp(201, _str('made'))], [_resp(418, dict(k='bytes', b=[1, 2]), err=True), _str('never')],
                        [dict(k='bytes', b=[104, 105]), dict(k='bytes', b=[33])], [dict(k='bytes', b=[104]), _str('x')], []):
                cs.append(ret(_iter(1, lead + nxt, close=False, lst=kind)))
        cs.append(ret(_iter(1, [eb, _str('héllo')], close=False, lst=kind), method='HEAD'))
        cs.append(ret(_iter(1, [eb, _resp(404, _str('nf'), err=True)], close=False, lst=kind), json=True))
    # a path with a (valid or invalid) percent escape: routed once, as it is; every hook runs once, 404 or not
    # (seeded change: a 404 for such a path is re-dispatched with the unquoted path from inside _handle's try/finally)
    for pk in sorted(PATH_TAILS):
        for rt_ in (dict(k='404', partial=None), dict(k='404', partial=dict(muts=[], res=dict(k='ret', o=hello))),
                    dict(k='405'), None):
            for js in (False, True):
                c_ = ret(hello, path=pk, json=js, before=[OK_HOOK, OK_HOOK], after=[OK_HOOK, OK_HOOK])
                if rt_ is not None:
                    c_['routing'] = rt_
                cs.append(c_)
        cs.append(ret(hello, path=pk, method='HEAD', routing=dict(k='404', partial=None), before=[OK_HOOK], after=[BAD_HOOK, OK_HOOK]))
    # requests that declare a body the application will not take / malformed framing and body headers, with body limits
    # configured: no handler of the grammar reads the body, so hooks, routing and handler run as for any request
    # (seeded change: a BodyMixin.on_init refuses an oversized Content-Length inside request.__init__, before
    # response.__init__() and outside the try/finally that emits the hooks)
    setter = dict(k='ok', reg='ANY', rhooks=[], h=dict(muts=[dict(m='cookie', n='sid', v='v1'), dict(m='set', n='X-A', v='v')],
                                            res=dict(k='ret', o=hello)))
    for i, odd in enumerate(REQ_ODDITIES):
        for lim in BODY_LIMITS:
            cfg = dict(via='ctor' if i % 2 else 'setup', catchall=True, debug=False, **lim)
            cs.append(ret(hello, method='POST', before=[OK_HOOK, OK_HOOK], after=[OK_HOOK, OK_HOOK], reqhdr=odd, cfg=cfg))
            cs.append(dict(ret(hello, routing=setter, before=[OK_HOOK], after=[OK_HOOK], cfg=cfg), kind='pair',
                           second=dict(path='plain', json=bool(i % 3 == 0), method='POST', fw=False, reqhdr=odd)))
        cs.append(ret(hello, method='POST', routing=dict(k='404', partial=None), before=[OK_HOOK], after=[OK_HOOK], reqhdr=odd,
                      cfg=dict(via='ctor', catchall=True, debug=False, max_body_size=10)))
        cs.append(ret(hello, method='PUT', routing=crash, before=[OK_HOOK], after=[OK_HOOK], reqhdr=odd, json=True,
                      cfg=dict(via='ctor', catchall=True, debug=False, max_body_size=10)))
    for proto in ('HTTP/1.1', 'HTTP/1.0'):
        for loc in LOCATIONS[:4]:
            cs.append(ret(hello, proto=proto, routing=prog(dict(k='redirect', loc=loc, code=None))))
    cs.append(ret(hello, routing=prog(dict(k='redirect', loc='/n', code=301), dict(m='set', n='X-A', v='v'),
                                      dict(m='cookie', n='sid', v='v1'), dict(m='set', n='Location', v='/old'))))
    cs.append(ret(hello, routing=prog(dict(k='redirect', loc='/n', code=None), dict(m='add', n='X-A', v='v'),
                                      dict(m='add', n='X-A', v='w'))))                      # copy() refuses a list value
    cs.append(ret(hello, routing=prog(dict(k='redirect', loc='/n', code=None),
                                      dict(m='cookie', n='o1', v='5 \u20ac', opts=dict(path='/x')))))
    cs.append(ret(hello, method='HEAD', routing=prog(dict(k='redirect', loc='/n', code=307))))
    for st in (400, 404, 500, 999):
        cs.append(ret(hello, routing=prog(dict(k='raise_http', err=True, via='abort',
                                               r=dict(status=st, headers=[], cookies=[], body=_str('Unknown Error'))))))
    for b in [b for i, b in enumerate(BAD_MUTS) if b not in BAD_MUTS[:i]]:
        cs.append(ret(hello, routing=prog(dict(k='ret', o=hello), dict(m='set', n='X-A', v='v'), b,
                                          dict(m='set', n='X-B', v='never'))))
        cs.append(ret(hello, before=[dict(muts=[b], res=dict(k='ret', o=dict(k='falsy', v='none')))], after=[OK_HOOK]))
    seq = [dict(m='set', n='X-A', v='v'), dict(m='add', n='X-B', v='1'), dict(m='add', n='X-B', v='2'),
           dict(m='set', n='Content-Type', v='text/plain; charset=latin1', via='prop'),
           dict(m='set', n='Content-Length', v=7, via='prop')]
    for extra in ([dict(m='del', n='X-B', via='del')], [dict(m='del', n='nope', via='del')], [dict(m='del', n='X-A', via='pop')],
                  [dict(m='clear', ns=None)], [dict(m='clear', ns=['X-A', 'nope'])],
                  [dict(m='update', items=[['X-B', 'new'], ['X-C', 'c']])],
                  [dict(m='clear', ns=None), dict(m='set', n='X-A', v='again')]):
        cs.append(ret(hello, routing=prog(dict(k='ret', o=_str('h\xe9llo')), *(seq + extra))))
    for o in COOKIE_OPTS:
        cs.append(ret(hello, routing=prog(dict(k='ret', o=hello), dict(m='cookie', n='o1', v='v1', opts=o))))
        cs.append(ret(_resp(200, hello, cookies=[('k', 'x', o)])))
    cs.append(ret(hello, routing=prog(dict(k='ret', o=hello), dict(m='cookie', n='sid', v='v1'),
                                      dict(m='delcookie', n='sid'), dict(m='delcookie', n='gone', opts=dict(path='/x')))))
    for acc, _ in ACCEPTS:
        cs.append(ret(hello, routing=dict(k='404', partial=None), accept=acc))
    for reg in ('on', 'deco', 'mixed'):
        cs.append(ret(hello, hookreg=reg, before=[OK_HOOK, OK_HOOK, OK_HOOK], after=[OK_HOOK, OK_HOOK, OK_HOOK]))
    for ctor in ('list', 'dict', 'kw'):
        for e in (False, True):
            o = _resp(201, hello, err=e, headers=[('X-A', 'v'), ('X-B', 'w')])
            o['r']['ctor'] = ctor
            cs.append(ret(o))
            o2 = _resp(201, hello, err=e, headers=[('X-A', 'v'), ('X-A', 'w')])
            o2['r']['ctor'] = ctor
            cs.append(ret(o2))
    cs.append(ret(hello, routing=prog(dict(k='ret', o=hello), dict(m='add', n='X-A', v='1'), dict(m='add', n='X-A', v='2'),
                                      dict(m='add', n='X-A', v='3'), dict(m='set', n='Expires', v=86400, via='prop'))))
    for exc in sorted(FATAL):
        cs.append(ret(_iter(1, [_str(''), dict(k='raise_fatal', exc=exc)])))           # first next() of the body
    for js in (False, True):
        cs.append(dict(ret(hello, json=js, routing=prog(dict(k='raise_exc', badrepr=True))),
                       cfg=dict(via='ctor', catchall=True, debug=True)))
    # a before_request hook rewrites PATH_INFO / REQUEST_METHOD: routing must see the rewritten request
    # (seeded change: _handle routes with the path captured before the hooks ran)
    def rw_hook(path=None, method=None):
        muts = ([dict(m='env', key='PATH_INFO', v=path)] if path else []) + \
            ([dict(m='env', key='REQUEST_METHOD', v=method)] if method else [])
        return dict(muts=muts, res=dict(k='ret', o=dict(k='falsy', v='none')))
    for rt in (prog(dict(k='ret', o=hello)), dict(k='404', partial=None), dict(k='405'),
               dict(k='404', partial=dict(muts=[], res=dict(k='ret', o=hello)))):
        base = ret(hello, routing=rt)
        cs.append(dict(base, before=[rw_hook(path=request_path(base))], rewrite=dict(path='/v1' + request_path(base))))
        cs.append(dict(base, before=[OK_HOOK, rw_hook(path=request_path(base))], after=[OK_HOOK], rewrite=dict(path='/other')))
        cs.append(dict(base, before=[rw_hook(method='GET')], rewrite=dict(method='POST')))
    cs.append(dict(ret(hello, method='HEAD'), before=[rw_hook(method='HEAD')], rewrite=dict(method='GET')))
    cs.append(dict(ret(hello, method='GET'), before=[rw_hook(method='GET')], rewrite=dict(method='HEAD')))
    # header values of other types than str (the same number as int, float and bool)
    for a, b in ((1.0, True), (True, 1), (0, False), (0.0, 0), (None, 'None'), (1e3, 1000)):
        cs.append(ret(hello, routing=prog(dict(k='ret', o=hello), dict(m='set', n='X-Sample-Rate', v=a),
                                          dict(m='set', n='X-Cache-Hit', v=b), dict(m='add', n='X-N', v=a),
                                          dict(m='add', n='X-N', v=b))))
        cs.append(ret(_resp(200, hello, headers=[('X-A', a), ('X-B', b)])))
    for st in (200, 404, 999, '299 Custom'):
        cs.append(dict(kind='respapi', status=st))
    for a in STATUS_ARGS:
        cs.append(dict(kind='status', arg=a))
    return cs


def thorough():
    """bounded-exhaustive: every value of a depth-2 alphabet as what the handler returns, raises
    (response objects) or yields first, x verbs x wrapper x error-page flavour x one hook shape"""
    hello = _str('hi')
    leaves = [dict(k='falsy', v='none'), _str(''), hello, dict(k='bytes', b=[1, 2]), dict(k='other', v='int'),
              _str('\ud800'), dict(k='falsy', v='ebytes')]
    ids = itertools.count(1)

    def iters(elems, sizes=(0, 1, 2), boxes=(None,)):
        outs = []
        for n in sizes:
            for combo in itertools.product(elems, repeat=n):
                for close in (False, True):
                    for box in boxes:
                        outs.append(dict(k='iter', id=next(ids), close=close, items=list(combo), list=False, box=box))
        return outs
    item_leaves = [dict(k='yield', o=o) for o in leaves] + [dict(k='raise_exc')]
    level1 = list(leaves)
    level1 += iters(item_leaves, boxes=(None, 'gen'))
    level1 += iters(item_leaves[:4], sizes=(3,))
    for cl in (False, True):
        for it in (False, True):
            for content in ([], [65]):
                level1.append(dict(k='file', id=next(ids), close=cl, iter=it, content=content))
    level2 = list(level1)
    bodies = leaves[:5] + [o for o in level1 if o['k'] == 'iter' and len(o['items']) == 1][:8] + level1[-8:]
    for st in (200, 102, 204, 304, 404, 500, '299 Custom'):
        for b in bodies:
            for err in (False, True):
                level2.append(_resp(st, b, err=err))
                level2.append(_resp(st, b, err=err, headers=[('Content-Length', '7'), ('content-type', 'text/plain; charset=latin1')],
                                    cookies=[('sid', 'v1')]))
    wrappers = [dict(k='yield', o=o) for o in level2 if o['k'] == 'http']
    level2 += iters(wrappers[:40] + item_leaves[:2], sizes=(1,))
    level2 += iters(wrappers[:6] + item_leaves[:2], sizes=(2,))
    hooks = [([], []), ([OK_HOOK, BAD_HOOK], [OK_HOOK, OK_HOOK])]
    for o in level2:
        for method in ('GET', 'HEAD', 'POST'):
            for fw in (False, True):
                if fw and o['k'] != 'file':
                    continue
                for js in (False, True):
                    if js and o['k'] != 'http':
                        continue
                    for bef, aft in hooks:
                        if bef and (method != 'GET' or o['k'] not in ('http', 'falsy')):
                            continue
                        yield ret(o, method=method, fw=fw, json=js, before=bef, after=aft)
                        if o['k'] == 'http':
                            yield ret(o, method=method, fw=fw, json=js, before=bef, after=aft,
                                      routing=dict(k='ok', rhooks=[],
                                                   h=dict(muts=[], res=dict(k='raise_http', err=o['err'], r=o['r']))))
                            if o['err']:
                                yield ret(o, method=method, fw=fw, json=js, before=bef, after=aft,
                                          eh=[[status_of(o['r']['status'])[0], dict(k='body')]])


# --------------------------------------------------------------------------
# bookkeeping
# --------------------------------------------------------------------------

def _kinds(case):
    ks = set()

    def f(d):
        if 'k' in d:
            ks.add(d['k'])
    walk(case, f)
    return ks


def nontrivial(case, obs):
    if case['kind'] == 'pair':
        return True
    if case['kind'] == 'respapi':
        return False
    if case['kind'] != 'req':
        return False
    ks = _kinds(case)
    if ks & {'iter', 'file', 'http', 'raise_exc', 'raise_http', '404', '405', 'other'}:
        return True
    return case['method'] == 'HEAD' or bool(case['eh'])


def key(case):
    return json.dumps(case, sort_keys=True)


def classify(case, obs):
    if case['kind'] == 'status':
        return 'status-setter/%s' % obs.get('status')
    if case['kind'] == 'pair':
        return 'pair/shared-response-object'
    if case['kind'] == 'respapi':
        return 'response-api'
    if model_skipped(case):
        return 'oracle-only/%s' % model_skipped(case)
    rt = case['routing']
    top = rt['k']
    if top == 'ok':
        res = rt['h']['res']
        top = res['k'] + ('/' + res['o']['k'] if res['k'] == 'ret' else '')
    st = [e for e in obs.get('events', []) if e[0] == 'start']
    code = st[0][1][:3] if st else 'none'
    return '%s/%s/%s%s' % (case['method'] if case['method'] in ('GET', 'HEAD') else 'other-verb', top, code,
                           '/catchall' if st and st[0][3] else '')


def _sub_outs(o):
    if o['k'] == 'http':
        yield o['r']['body']
        yield dict(o, r=dict(o['r'], headers=[], cookies=[]))
        for s in _sub_outs(o['r']['body']):
            yield dict(o, r=dict(o['r'], body=s))
    if o['k'] == 'iter':
        its = o['items']
        for i in range(len(its)):
            yield dict(o, items=its[:i] + its[i + 1:])
        for i, it in enumerate(its):
            if it['k'] == 'yield':
                for s in _sub_outs(it['o']):
                    yield dict(o, items=its[:i] + [dict(k='yield', o=s)] + its[i + 1:])
    if o['k'] in ('str',) and len(o['s']) > 1:
        yield dict(o, s=o['s'][:1])


def shrink(case):
    if case['kind'] == 'pair':
        for sc in shrink(dict(case, kind='req')):
            yield dict(sc, kind='pair')
        return
    if case['kind'] != 'req':
        return
    for f in ('before', 'after', 'eh'):
        for i in range(len(case[f])):
            yield dict(case, **{f: case[f][:i] + case[f][i + 1:]})
    if case['method'] != 'GET':
        yield dict(case, method='GET')
    for f in ('fw', 'json'):
        if case[f]:
            yield dict(case, **{f: False})
    if case['path'] != 'plain':
        yield dict(case, path='plain')
    rt = case['routing']
    if rt['k'] == 'ok':
        if rt['rhooks']:
            yield dict(case, routing=dict(rt, rhooks=rt['rhooks'][1:]))
        h = rt['h']
        for i in range(len(h['muts'])):
            yield dict(case, routing=dict(rt, h=dict(h, muts=h['muts'][:i] + h['muts'][i + 1:])))
        if h['res']['k'] == 'ret':
            for s in _sub_outs(h['res']['o']):
                yield dict(case, routing=dict(rt, h=dict(h, res=dict(k='ret', o=s))))
        if h['res']['k'] == 'raise_http':
            yield dict(case, routing=dict(rt, h=dict(h, res=dict(k='ret', o=dict(k='http', err=h['res']['err'],
                                                                                 r=h['res']['r'])))))


# --------------------------------------------------------------------------
# known findings
# --------------------------------------------------------------------------

def pred_status_line_shape(case, what, m):
    return case.get('kind') == 'status' and isinstance(what, str) and 'not "NNN reason"' in what


PREDICATES = {'status_line_shape': pred_status_line_shape}

# Round-4 audit: every public name of the anchored code that can influence what C03 observes.
# "oracle only" = exercised on the implementation and judged by the oracle, not compared with the model.
API_SURFACE = [
    # ---- ombott.py: Ombott
    ('Ombott(config) / DefaultConfig keys catchall, debug', 'covered by req cases with cfg (via=ctor); catchall=False is '
     'modelled (Wsgi.wsgi_nocatch, theorem C03_catchall_off); debug=True oracle only (page text with repr/traceback not modelled)'),
    ('Ombott.setup(config)', 'covered by cfg via=setup (same expectations as via=ctor)'),
    ('config.domain_map / app_name_header', 'covered by C03a (dm cases; model App.with_app_name)'),
    ('config.errors_map / max_body_size / max_memfile_size / allow_x_script_name', 'excluded here: request-body side, '
     'covered by C09 (errors_map, max_body_size) and C04/C05/C13'),
    ('Ombott.add_hook / on(name, f) / on(name) decorator', 'covered by hookreg = add_hook | on | deco | mixed'),
    ('Ombott.remove_hook / add_hook while serving', 'covered by rmhook / addhook mutations (model: MHook, after_call_list)'),
    ('Ombott.emit', 'covered by every case with hooks; snapshot semantics by the hook-edit cases'),
    ('Ombott.error(code)', 'covered by eh specs const/body/same/raise'),
    ('Ombott.error(404, rule)', 'covered by routing 404 with partial (and C03a add_hook via=error)'),
    ('Ombott.default_error_handler', 'covered: HTML and JSON pages, json.dumps TypeError -> catch-all; Accept spellings by accept=...'),
    ('Ombott.route / add_route / to_route / on_route / remove_route*', 'routing is an input here; covered by C03a (composition with '
     'the router) and C01/C02/C11'),
    ('Ombott.handler', 'covered: 404, 404+PARTIAL, 405 (Allow), SIMPLE route hooks, handler call'),
    ('Ombott._handle', 'covered except the undecodable-path branch (outside C03: "decodable path"; covered by C09) and the '
     're-raise of KeyboardInterrupt/SystemExit/MemoryError: covered and modelled (exception-class pool at handler / hook / '
     'route-hook raise sites)'),
    ('Ombott._cast', 'covered: every branch incl. the 1000-pass guard, file wrappers, peeked iterables, box iterables; the '
     're-raise of KeyboardInterrupt/... at the first next(): covered and modelled (class pool at item and error-handler raise sites)'),
    ('Ombott.wsgi / __call__', 'covered: suppression, close, catch-all (+HEAD), catchall=False, debug page (oracle only), re-raise of the three classes / pass of non-Exceptions (modelled: WsPassed)'),
    ('Ombott.run / run() / server_adapters', 'excluded: starts a server, not on the request path'),
    ('abort(code, text)', 'covered by raise_http via=abort'),
    ('redirect(location, code)', 'covered by res kind redirect (303/302 by SERVER_PROTOCOL, explicit code, headers/cookies '
     'copied by BaseResponse.copy, TypeError for a multi-valued header); needs Globals = this app (harness patches Globals)'),
    ('Globals / default_app()', 'excluded: cross-application state is C10; redirect is run with Globals bound to the app under test'),
    ('_closeiter', 'covered through _cast (single close callback); the list/tuple form of close is never built by the framework'),
    # ---- response.py
    ('BaseResponse.__init__(body, status, headers=list|dict, **more_headers)', 'covered by resp ctor = append|list|dict|kw'),
    ('BaseResponse.status setter (int, "NNN reason", errors)', 'covered by status cases, status mutations, bad status mutations'),
    ('BaseResponse.status / status_line / status_code getters', 'covered by respapi (oracle only; not used by the framework)'),
    ('BaseResponse.headerlist', 'covered: bad_headers (204/304, title-cased names), default Content-Type, multi values, cookies, '
     'utf8->latin1 transcoding, encode errors -> catch-all'),
    ('BaseResponse.charset', 'covered by Content-Type values with charset= (latin1, ascii, unknown, empty, repeated, list value)'),
    ('BaseResponse.content_type / content_length / expires setters', 'covered by set mutations via=prop; expires/… readers are '
     'handler-side reads (excluded)'),
    ('BaseResponse.set_cookie(name, value, **options)', 'covered: plain values incl. > U+00FF, options path/domain/max_age '
     '(int, timedelta)/expires/secure/httponly/samesite, non-str and over-long values (raise); secret= (signed) excluded: C15'),
    ('BaseResponse.delete_cookie', 'covered by delcookie mutations (incl. delete then set of the same name: Morsel reuse)'),
    ('BaseResponse.copy(cls)', 'covered through redirect, and respapi (cls=HTTPError, multi-valued header, wrong cls)'),
    ('BaseResponse.close / __iter__ / __repr__', 'covered by respapi (oracle only): the framework never calls them'),
    ('HTTPResponse.apply', 'covered by every returned/raised/yielded response; shared instances by pair cases'),
    ('HTTPError(status, body, exception, traceback, **options)', 'covered; exception/traceback are shown only in JSON pages and '
     'debug pages (harness fixes format_exc)'),
    ('HTTP_CODES / _HTTP_STATUS_LINES', 'covered: listed and unlisted codes (199, 299, 520, 999), the six added codes (418 ...)'),
    # ---- common_helpers.py
    ('HeaderDict.__setitem__/append/setdefault/update/pop/__delitem__/__contains__/clear(*names)/copy', 'covered by mutations '
     'set/add/update/del(pop|del)/clear/clear names and by redirect (copy); get/keys/values/items/__len__/__iter__/__repr__ are '
     'reads (respapi)'),
    ('_hval', 'covered incl. both raises (control characters, wrong type)'),
    ('WSGIFileWrapper', 'covered: file-likes with/without close and __iter__, with/without wsgi.file_wrapper'),
    ('html_escape / tob', 'covered by the catch-all page (special path); tob(bytes) branch unreachable from wsgi()'),
    # ---- environ
    ('REQUEST_METHOD (7 verbs; spelling)', 'covered; lower-case spellings in C03a'),
    ('Request.__setitem__ from a before_request hook (PATH_INFO / REQUEST_METHOD rewritten before routing)', 'covered by '
     'rewrite cases (env mutations; the request arrives under another path / verb) and, with the routing computed by the '
     'model, in C03a (App.environ_after_before, theorem App_routing_after_before_hooks)'),
    ('header values of type int / float / bool / None', 'covered by typed values in set/add mutations and response headers '
     '(1, 1.0, True, 0, 0.0, False, None ...); cross-request equality of such values in C09'),
    ('HTTP_ACCEPT', 'covered by accept= spellings'),
    ('SERVER_PROTOCOL', 'covered by proto (redirect)'),
    ('wsgi.file_wrapper', 'covered by fw'),
    ('missing mandatory keys (wsgi.errors, REQUEST_METHOD, PATH_INFO)', 'excluded: PEP 3333 makes them mandatory'),
]

MANIFEST = dict(
    text=('Proof: 14 theorems in coq/props/C03.v (Coq, all closed under the global context) about the hand-written model '
          'coq/model/Wsgi.v of Ombott._handle/handler/emit/_cast/wsgi, headerlist, apply and the status setter, for ALL '
          'handler programs of the grammar out/item/resp (nesting unbounded), all hook lists, routing outcomes, error-handler '
          'functions and environ facts: exactly one start_response (also in and after the catch-all); the casting loop ends '
          'within 1001 passes; HEAD/1xx/204/304 return the empty list (no-body test read from the source); at most one '
          'close() per request and exactly one for the object that became the body; a framework-written Content-Length '
          'equals the bytes returned; status line / header list / chunk types well-formed under stated hypotheses on the '
          'application\'s own values; nothing escapes for a decoded path and hook/handler/first-next crashes give a 500; '
          'hook order and prefixes incl. hook lists edited while running.  The model is tied to /repo on every run by a '
          'trace correspondence (extracted OCaml + vm_compute) under a PEP 3333 validator written for the check, and an '
          'independent oracle states the property clauses on the recorded events.'),
    note=('Hypotheses in statements: wf_program (status pairs as the setter leaves them / header names are tokens and values '
          'have no LF CR NUL (C14) / items after the first bytes chunk are bytes); eh returns well-formed values; eh 500 = '
          'None for the 500 claim; Forall scalar path (a decoded path) for "nothing escapes". Findings: status setter stores '
          'malformed custom lines verbatim (C03_status_setter_shape_refuted); iterables abandoned by _cast are never closed '
          '(C03_close_every_touched_iterable_refuted; outside the property wording). Modelled, not verified: see TRUSTED.'),
    technique='Coq proof over handler programs as data + model/implementation trace correspondence under a PEP 3333 validator',
    design_ref='DESIGN.md section 4, C03',
)
