"""C13 — body size limits and disk spooling bound what a request can consume."""
from io import BytesIO

from props.common import FragStream, enc_str, enc_list, Reader, environ
from props.bodyA_shared import TE_CHUNKED, TE_OTHER

ID = 'C13'
COQ_MODEL = 'model.BodyLimits'
COQ_CORR = 'corr_C13'
N_QUICK = 1500
N_THOROUGH = 6000
THOROUGH_EXHAUSTIVE = False
RULE = ('cases = corpus + generated: kind=body (payload sizes {limit-1, limit, limit+1, limit+buf, 10*limit, random} x '
        'max_body_size in {None, 0..40} x max_memfile_size 3..12 x framing Content-Length (also CL above/below the data) '
        'or chunked (random chunk sizes) x read fragmentation; via _body_read and via Ombott.__call__: status, body, '
        'type of Request.body, every read request and the stream position); kind=text (urlencoded / JSON bodies of the '
        'same sizes; via Request._get_body_string and via Request.forms / Request.json: 413 or the text); kind=body with a '
        'multipart Content-Type whose closing delimiter is followed by an epilogue of length around (limit - form) and far '
        'above it (the epilogue counts; both framings; _body_read(markup=...) directly and through WSGI); kind=budget '
        '(multipart bodies of 1..5 parts, text and file parts, sizes around max_memfile_size; via '
        'FieldStorage.iter_items on the markup of MultipartMarkup and via Request.forms through WSGI; every WSGI-level '
        'case configures the application through the constructor, through app.setup(cfg) or through setup() '
        'overriding constructor values, or uses a Request object directly with DefaultConfig / a plain dict (no '
        'errors_map: the bare exceptions escape); earlier partial reads, copy() after the read, a second Request over '
        'the same environ; JSON through Request.forms; repeated field names; uploads read block-wise through '
        'BytesIOProxy; fragmented multipart bodies; the default configuration at its 100 KiB threshold; kind=seq: '
        '3..7 requests on two shared application objects with different limits; the model side '
        'gets the raw body and boundary and runs its own scanner and field layer). thorough: all '
        'payload sizes 0..limit+buf+2 x limits 0..6 x buffers 3..5 x both framings x schedules {full, 1-byte, 2-byte}. '
        'non-trivial = a limit or threshold lies within [size-buf-1, size+buf+1] (the case is near an edge) and at least '
        'two reads were issued (body/text) or at least two parts (budget); distinct by the full case')
TRUSTED = ['modelled, not verified: the OS temporary file; parse_qsl / json.loads (only the size cap in front of them is '
           'modelled); the multipart scanner / header parser / field layer are the models of C06/C07 '
           '(coq/model/MultipartRef.v, Fields.v, BodyPipeline.v), fed the raw body and boundary',
           'gen/Gen.v errors_map (BodySizeError -> 413, BodyParsingError -> 400) regenerated from /repo each run']
ASSUMPTIONS = ['max_memfile_size > 0 (it is also the read buffer)', 'chunk-size lines not longer than the buffer',
               'wsgi.input.read(n) returns at most n bytes and b"" only at EOF']


# --------------------------------------------------------------------------
# generators
# --------------------------------------------------------------------------

def chunk_encode(rng, payload, buf):
    """legal chunked encoding with size lines <= buf; returns (bytes, layout) where layout lists
    (line_start, data_start, data_end) per chunk so that the oracle can count payload bytes in a prefix"""
    out = b''
    layout = []
    i = 0
    while i < len(payload):
        n = rng.choice([1, 2, 3, 5, buf, buf + 1, 2 * buf + 1, len(payload) - i])
        n = max(1, min(n, len(payload) - i))
        line = b'%x\r\n' % n
        if len(line) + 4 <= buf and rng.random() < 0.2:
            line = b'%X;e=1\r\n' % n                       # a chunk extension
        if len(line) > buf:
            n = min(n, 15)
            line = b'%x\r\n' % n
        layout.append([len(out), len(out) + len(line), len(out) + len(line) + n])
        out += line + payload[i:i + n] + b'\r\n'
        i += n
    out += b'0\r\n\r\n'
    return out, layout


def gen_sched(rng, n):
    r = rng.random()
    if r < 0.3:
        return []
    if r < 0.45:
        return [0] * (n + 4)
    return [rng.choice([0, 0, 1, 2, 3, 7, 20]) for _ in range(rng.randrange(1, n + 4))]


def pick_size(rng, limit, buf):
    cands = [0, 1, buf - 1, buf, buf + 1, 2 * buf, rng.randrange(0, 60)]
    if limit is not None:
        cands += [max(limit - 1, 0), limit, limit + 1, limit + buf, limit + buf + 1, 10 * limit]
    return min(rng.choice(cands), 400)


def gen_body(rng, kind='body'):
    buf = rng.randrange(3, 13)
    maxb = None if rng.random() < 0.25 else rng.choice([0, 1, 5, buf - 1, buf, buf + 1, 3 * buf, rng.randrange(0, 41)])
    size = pick_size(rng, maxb, buf)
    if kind == 'text':
        size = pick_size(rng, rng.choice([maxb, buf, buf]), buf)
    ctype = None
    if kind == 'text':
        ctype = rng.choice(['urlencoded', 'json'])
    if ctype == 'json':
        size = max(size, 8)
        payload = b'{"a":"' + b'j' * (size - 8) + b'"}'
    elif ctype == 'urlencoded':
        payload = (b'k=' + b'v' * size)[:size] if size else b''
    else:
        payload = bytes(rng.choice([0, 10, 13, 48, 255, rng.randrange(256)]) for _ in range(size))
    chunked = rng.random() < 0.5
    layout = None
    expect = 'exact'
    if chunked:
        data, layout = chunk_encode(rng, payload, buf)
        cl = -1
        if kind == 'body' and rng.random() < 0.08:
            # a malformed chunked body among the size cases: cut short, bad size digits, missing terminator
            r = rng.random()
            if r < 0.5:
                data = data[:rng.randrange(0, max(len(data) - 5, 1))]
            elif r < 0.75 or not layout:
                data = b'zz\r\n' + data
            else:
                t = layout[0][2]
                data = data[:t] + b'XY' + data[t + 2:]
            expect = 'reject'
        elif rng.random() < 0.12:
            # both headers present: the chunked coding wins for the body (C05) and, after fix F37, for the text
            cl = rng.choice([0, 1, max(size - 1, 0), size, size + 3, buf, buf + 1, 10 * buf])
    else:
        data = payload
        r = rng.random()
        cl = size
        if r < 0.12:
            cl = size + rng.randrange(1, 6)        # early EOF: the body is what arrived
        elif r < 0.22:
            data = payload + b'EXTRA-BYTES-BEYOND-CL'
        elif r < 0.25:
            cl = -1
            payload = b''
    if kind == 'text':
        via = rng.choice(['gbs', 'gbs', 'forms'])
        if not chunked and cl > size:
            expect = 'any'                          # CL larger than what arrived: 413 decided on the header
    else:
        via = rng.choice(['func', 'func', 'wsgi'])
    c = dict(kind=kind, data=list(data), cl=cl, chunked=chunked, buf=buf, maxb=maxb,
             sched=gen_sched(rng, len(data)), via=via, payload_len=len(payload), layout=layout,
             ctype=ctype, expect=expect)
    if via != 'func':
        # the Transfer-Encoding spelling (shared pool with C05): any value containing "chunked" in any case
        c['te'] = rng.choice(TE_CHUNKED) if chunked else rng.choice([None, None, None] + TE_OTHER)
        if rng.random() < 0.2:
            # the Request object used directly: with DefaultConfig (errors_map present) or a plain dict (absent)
            c['inner'] = {'gbs': 'gbs', 'forms': 'forms'}.get(via)
            c['via'] = 'request'
            c['rconf'] = rng.choice(['default_config', 'raw_dict', 'default_config_kw'])
        else:
            c['conf'] = rng.choice(['ctor', 'ctor', 'setup', 'setup', 'setup_over', 'kw', 'kw_split', 'kw_setup', 'kw_only'])
        if rng.random() < 0.3:
            c['pre'] = [rng.choice(['body_first', 'copy_after', 'second']) for _ in range(rng.randrange(1, 3))]
        if c['via'] != 'request' and rng.random() < 0.3:
            c['hkind'] = rng.choice(['ret_body', 'gen', 'hook_gen'])
        if kind == 'text' and ctype == 'json' and via == 'forms' and rng.random() < 0.5:
            c['inner'] = 'forms_json'           # JSON through Request.forms / POST instead of Request.json
    return c


def build_multipart(parts, boundary=b'BnD'):
    """parts: list of dict(name, filename|None, size, pad) -> (body, [(hsz, dsz, is_file)])"""
    out = b''
    triples = []
    for p in parts:
        disp = b'Content-Disposition: form-data; name="%s"' % p['name'].encode()
        if p['filename'] is not None:
            disp += b'; filename="%s"' % p['filename'].encode()
        lines = [disp]
        if p['filename'] is not None:
            lines.append(b'Content-Type: application/octet-stream')
        if p.get('pad'):
            lines.append(b'X-Pad: ' + b'p' * p['pad'])
        block = b'\r\n'.join(lines)
        data = (b'd' if p['filename'] is None else b'F') * p['size']
        out += b'--' + boundary + b'\r\n' + block + b'\r\n\r\n' + data + b'\r\n'
        triples.append([len(block), len(data), 1 if p['filename'] is not None else 0])
    out += b'--' + boundary + b'--\r\n'
    return out, triples


def gen_budget(rng):
    buf = rng.choice([60, 80, 100, 128, 150, 200, 256])
    parts = []
    n = rng.randrange(1, 6)
    for i in range(n):
        is_file = rng.random() < 0.35
        size = rng.choice([0, 1, 5, 20, buf // 2, buf, rng.randrange(0, 3 * buf)]) if not is_file else \
            rng.choice([0, 10, buf, 3 * buf, 10 * buf])
        fname = ('f%d.bin' % i) if is_file else None
        if is_file and rng.random() < 0.3:
            fname = ''                          # a file input left empty is sent as filename="" (finding F10): a FILE for
            size = rng.choice([0, 7, buf, 4 * buf, 100 * buf])   # the budget — its content must never become form text
        parts.append(dict(name='n%d' % (i if rng.random() < 0.7 else rng.randrange(2)), filename=fname, size=size,
                          pad=rng.choice([0, 0, 0, 3, 30])))
    c = dict(kind='budget', parts=parts, buf=buf, via=rng.choice(['iter_items', 'iter_items', 'wsgi']))
    if c['via'] == 'wsgi':
        c['conf'] = rng.choice(['ctor', 'setup', 'setup_over', 'kw', 'kw_split', 'kw_setup'])
        c['sched'] = rng.choice([[], [0, 3, 1] * 40, [6] * 200])      # the multipart body itself arrives fragmented
        if rng.random() < 0.25:
            c['hkind'] = rng.choice(['gen', 'hook_gen'])
    # steer half of the cases to the edge: threshold = exact need + {-1, 0, +1}
    if rng.random() < 0.5:
        _, triples = build_multipart(parts)
        need = sum(h + (0 if f else d) for h, d, f in triples)
        c['buf'] = max(need + rng.choice([-1, 0, 1]), 1)
    return c


def gen_epilogue(rng):
    """a multipart body whose closing delimiter is followed by an epilogue: the epilogue is part of the body — it
    counts against max_body_size and the read must stop at limit + one buffer, under both framings"""
    parts = [dict(name='a', filename=None, size=rng.choice([0, 3, 9]), pad=0)]
    if rng.random() < 0.4:
        parts.append(dict(name='f', filename='u.bin', size=rng.choice([0, 20]), pad=0))
    form, _ = build_multipart(parts)
    buf = rng.randrange(3, 13)
    maxb = len(form) + rng.choice([0, 1, 5, 20, 60])
    room = maxb - len(form)
    elen = rng.choice([0, max(room - 1, 0), room, room + 1, room + buf, room + buf + 1, 10 * maxb, rng.randrange(0, 200)])
    payload = form + bytes(rng.choice([13, 10, 45, 69, rng.randrange(256)]) for _ in range(elen))
    chunked = rng.random() < 0.5
    if chunked:
        data, layout = chunk_encode(rng, payload, buf)
        cl = -1
    else:
        data, layout, cl = payload, None, len(payload)
    c = dict(kind='body', data=list(data), cl=cl, chunked=chunked, buf=buf, maxb=rng.choice([maxb, maxb, None]),
             sched=gen_sched(rng, len(data)), via=rng.choice(['func', 'wsgi', 'wsgi']), payload_len=len(payload),
             layout=layout, ctype='multipart', expect='exact')
    if c['via'] == 'wsgi':
        c['conf'] = rng.choice(['ctor', 'setup'])
        if chunked:
            c['te'] = rng.choice(TE_CHUNKED)
    return c


def gen_seq(rng):
    """3..7 requests (raw bodies, form texts, multipart forms) served by two shared application objects with
    different limits, interleaved: 413 / 200 / 400 in any order"""
    apps = [[rng.choice(['ctor', 'setup', 'setup_over', 'kw', 'kw_setup']), rng.choice([4, 8, 12]), rng.choice([None, 5, 20])],
            [rng.choice(['ctor', 'setup', 'kw_split', 'kw_only']), rng.choice([5, 9, 60]), rng.choice([None, 0, 7, 30])]]
    items = []
    for _ in range(rng.randrange(3, 8)):
        k = rng.randrange(2)
        while True:
            it = gen_body(rng, rng.choice(['body', 'body', 'text']))
            if it['via'] not in ('func', 'request'):
                break
        conf, buf, maxb = apps[k]
        # re-size the case for its application's configuration
        size = min(it['payload_len'], 60)
        payload = bytes(it['data'][:0]) + (b'k=' + b'v' * size)[:size] if it['kind'] == 'text' and it['ctype'] != 'json' \
            else (b'{"a":"' + b'j' * max(size - 8, 0) + b'"}' if it['kind'] == 'text' else bytes(range(48, 48 + size)))
        if it['chunked']:
            data, layout = chunk_encode(rng, payload, max(buf, 3))
            if any(e - b > buf for b, e, _ in layout):
                it['chunked'], data, layout = False, payload, None
        else:
            data, layout = payload, None
        it.update(buf=buf, maxb=maxb, data=list(data), layout=layout, payload_len=len(payload), conf=conf,
                  cl=-1 if it['chunked'] else len(payload), expect='exact', sched=gen_sched(rng, len(data)), app=k)
        it.pop('pre', None)
        it['te'] = rng.choice(TE_CHUNKED) if it['chunked'] else rng.choice([None, None] + TE_OTHER)
        items.append(it)
    return dict(kind='seq', apps=apps, items=items)


def gen(rng, n):
    for i in range(n):
        if i % 25 == 17:
            yield gen_seq(rng)
            continue
        if i % 12 == 5:
            yield gen_epilogue(rng)
            continue
        if i % 40 == 31:
            while True:
                c = gen_body(rng, 'body')
                if c['expect'] == 'exact' and not c.get('pre') and c.get('rconf') != 'raw_dict':
                    break
            c['tmp_broken'] = True
            c.pop('hkind', None)                # (a hook that swallows the OSError would hide the first access)
            if c['maxb'] is not None and c['payload_len'] > c['maxb']:
                c['maxb'] = None                # (whether 413 or the spool attempt comes first is not the point here)
            yield c
            continue
        r = i % 10
        if r < 5:
            yield gen_body(rng, 'body')
        elif r < 8:
            yield gen_body(rng, 'text')
        else:
            yield gen_budget(rng)


def _body(data, cl, buf, maxb, chunked=False, sched=(), via='func', payload_len=None, layout=None, kind='body',
          ctype=None, expect='exact'):
    return dict(kind=kind, data=list(data), cl=cl, chunked=chunked, buf=buf, maxb=maxb, sched=list(sched), via=via,
                payload_len=len(data) if payload_len is None else payload_len, layout=layout, ctype=ctype,
                expect=expect)


def corpus():
    out = []
    d = bytes(range(65, 65 + 26))
    for via in ('func', 'wsgi'):
        # around max_body_size, Content-Length framing, buffer 4
        for size in (4, 5, 6, 9, 10, 26):
            out.append(_body(d[:size], size, 4, 5, via=via))
            out.append(_body(d[:size], size, 4, 5, via=via, sched=[0] * 40))
        # the single case of the repo's own test: 27 bytes against a limit of 5 with buffer 10
        out.append(_body(b'some body asdfdf fdfdf fdf ', 27, 10, 5, via=via))
        # chunked
        for size in (4, 5, 6, 9, 10, 26):
            enc = b'%x\r\n' % size + d[:size] + b'\r\n0\r\n\r\n'
            out.append(_body(enc, -1, 4, 5, chunked=True, via=via, payload_len=size,
                             layout=[[0, 3 if size < 16 else 4, (3 if size < 16 else 4) + size]]))
        # spill edge: size == threshold stays in memory, size == threshold + 1 goes to disk
        out.append(_body(d[:8], 8, 8, None, via=via))
        out.append(_body(d[:9], 9, 8, None, via=via))
        out.append(_body(d[:9], 9, 8, 0, via=via))
        out.append(_body(b'', 0, 8, 0, via=via))
    for via in ('gbs', 'forms'):
        for size in (7, 8, 9):
            txt = (b'k=' + b'v' * size)[:size]
            out.append(_body(txt, size, 8, None, via=via, kind='text', ctype='urlencoded'))
            out.append(_body(b'%x\r\n' % size + txt + b'\r\n0\r\n\r\n', -1, 8, None, chunked=True, via=via, kind='text',
                             ctype='urlencoded', payload_len=size, layout=[[0, 3, 3 + size]]))
        out.append(_body(b'{"a":"jj"}', 10, 10, None, via=via, kind='text', ctype='json'))
        out.append(_body(b'{"a":"jjj"}', 11, 10, None, via=via, kind='text', ctype='json'))
        out.append(_body(b'abc', -1, 8, None, via=via, kind='text', ctype='urlencoded', payload_len=0))
    # multipart budget: 40-byte header block + 5 bytes of text = 45
    one = [dict(name='a', filename=None, size=5, pad=0)]
    for b in (44, 45, 46, 39, 40):
        for via in ('iter_items', 'wsgi'):
            out.append(dict(kind='budget', parts=one, buf=b, via=via))
    big_file = [dict(name='a', filename=None, size=5, pad=0), dict(name='f', filename='x.bin', size=5000, pad=0),
                dict(name='e', filename=None, size=0, pad=0)]
    for via in ('iter_items', 'wsgi'):
        out.append(dict(kind='budget', parts=big_file, buf=200, via=via))
        out.append(dict(kind='budget', parts=big_file, buf=150, via=via))
    # round 10: no usable temporary directory: a body above the threshold is never handed over in memory
    for via in ('func', 'wsgi'):
        for size in (8, 9, 26):
            out.append(dict(_body(d[:size], size, 8, None, via=via), tmp_broken=True))
        out.append(dict(_body(b'1a\r\n' + d[:26] + b'\r\n0\r\n\r\n', -1, 8, None, chunked=True, via=via, payload_len=26,
                              layout=[[0, 4, 30]]), tmp_broken=True))
        out.append(dict(_body(d[:26], 26, 8, 30, via=via), tmp_broken=True))
    # round 8: the stored body is used AFTER _handle returned (returned as the response, read inside a generator, read by a
    # before_request hook and again by the generator) — on both sides of max_memfile_size
    for hk in ('ret_body', 'gen', 'hook_gen'):
        for size in (7, 8, 9, 26):
            out.append(dict(_body(d[:size], size, 8, None, via='wsgi'), hkind=hk))
            out.append(dict(_body(d[:size], size, 8, 30, via='wsgi', sched=[2] * 30), hkind=hk))
        out.append(dict(_body(d[:26], 26, 8, 20, via='wsgi'), hkind=hk))
        enc_ = b'1a\r\n' + d[:26] + b'\r\n0\r\n\r\n'
        out.append(dict(_body(enc_, -1, 8, None, chunked=True, via='wsgi', payload_len=26, layout=[[0, 4, 30]]), hkind=hk))
    for hk in ('gen', 'hook_gen'):
        out.append(dict(_body((b'k=' + b'v' * 9)[:8], 8, 8, None, via='forms', kind='text', ctype='urlencoded'), hkind=hk))
        out.append(dict(kind='budget', parts=big_file, buf=200, via='wsgi', hkind=hk))
    # round 8: a part with filename="" (finding F10's shape) and a large content: a file for the budget, never form text
    for size_ in (0, 300, 100 * 1024):
        empty_fn = [dict(name='a', filename=None, size=5, pad=0), dict(name='u', filename='', size=size_, pad=0)]
        for via in ('iter_items', 'wsgi'):
            out.append(dict(kind='budget', parts=empty_fn, buf=256, via=via))
    # round 7: a configuration built from a source mapping plus keyword fall-backs (DefaultConfig(src, **kw))
    for conf in ('kw', 'kw_split', 'kw_setup', 'kw_only'):
        out.append(dict(_body(d[:10], 10, 4, 5, via='wsgi'), conf=conf))
        out.append(dict(_body(d[:5], 5, 4, 5, via='wsgi'), conf=conf))
        out.append(dict(_body(d[:9], 9, 8, None, via='wsgi'), conf=conf))
        out.append(dict(_body((b'k=' + b'v' * 9)[:9], 9, 8, None, via='gbs', kind='text', ctype='urlencoded'), conf=conf))
        out.append(dict(kind='budget', parts=one, buf=44, via='wsgi', conf=conf))
    out.append(dict(_body(d[:10], 10, 4, 5, via='request'), rconf='default_config_kw'))
    # round 6: the Transfer-Encoding spellings (list values with blanks, other codings first, case): a chunked body
    # above the limit is still 413 and a small one is still decoded (not taken for an empty body)
    for te in sorted(set(TE_CHUNKED)):
        for size in (3, 26):
            enc_ = b'%x\r\n' % size + d[:size] + b'\r\n0\r\n\r\n'
            c_ = _body(enc_, -1, 4, 5, chunked=True, via='wsgi', payload_len=size, layout=[[0, 3 if size < 16 else 4, (3 if size < 16 else 4) + size]])
            c_['te'] = te
            out.append(c_)
    for te in TE_OTHER:
        c_ = _body(d[:7], 7, 4, 5, via='wsgi')
        c_['te'] = te
        out.append(c_)
    # round 5: bytes behind the closing multipart delimiter count against max_body_size (both framings)
    form1, _ = build_multipart([dict(name='a', filename=None, size=3, pad=0)])
    for elen in (0, 1, 40, 41, 45, 400):
        pl = form1 + b'E' * elen
        for via in ('func', 'wsgi'):
            c_ = _body(pl, len(pl), 4, len(form1) + 40, via=via)
            c_['ctype'] = 'multipart'
            out.append(c_)
            enc_ = b''.join(b'%x\r\n' % len(pl[i:i + 9]) + pl[i:i + 9] + b'\r\n' for i in range(0, len(pl), 9)) + b'0\r\n\r\n'
            lay, o_ = [], 0
            for i in range(0, len(pl), 9):
                n_ = len(pl[i:i + 9])
                lay.append([o_, o_ + 3, o_ + 3 + n_])
                o_ += 3 + n_ + 2
            c_ = _body(enc_, -1, 4, len(form1) + 40, chunked=True, via=via, payload_len=len(pl), layout=lay)
            c_['ctype'] = 'multipart'
            out.append(c_)
    # fix F37: a chunked form with a Content-Length next to it — the text is the whole decoded body (was cut to
    # CL bytes), and 413 is decided on the decoded size (was decided on the header)
    for via in ('gbs', 'forms'):
        for cl_ in (0, 3, 8, 20):
            txt = (b'k=' + b'v' * 8)[:8]
            out.append(_body(b'8\r\n' + txt + b'\r\n0\r\n\r\n', cl_, 8, None, chunked=True, via=via, kind='text',
                             ctype='urlencoded', payload_len=8, layout=[[0, 3, 11]]))
            out.append(_body(b'9\r\n' + txt + b'v\r\n0\r\n\r\n', cl_, 8, None, chunked=True, via=via, kind='text',
                             ctype='urlencoded', payload_len=9, layout=[[0, 3, 12]]))
    # audit round: the Request object used directly (with / without errors_map), earlier reads and copies, JSON through
    # forms, fragmented multipart bodies with repeated names, the default configuration at its 100 KiB threshold
    for rconf in ('default_config', 'raw_dict'):
        out.append(dict(_body(d[:10], 10, 4, 5, via='request'), rconf=rconf))
        out.append(dict(_body(d[:5], 5, 4, 5, via='request'), rconf=rconf))
        out.append(dict(_body((b'k=' + b'v' * 9)[:9], 9, 8, None, via='request', kind='text', ctype='urlencoded'),
                        rconf=rconf, inner='gbs'))
        out.append(dict(_body((b'k=' + b'v' * 9)[:8], 8, 8, None, via='request', kind='text', ctype='urlencoded'),
                        rconf=rconf, inner='forms'))
    for pre in (['body_first'], ['copy_after'], ['second'], ['body_first', 'copy_after']):
        out.append(dict(_body(d[:9], 9, 8, None, via='wsgi'), pre=pre))
        out.append(dict(_body((b'k=' + b'v' * 9)[:8], 8, 8, None, via='gbs', kind='text', ctype='urlencoded'), pre=pre))
        out.append(dict(_body((b'k=' + b'v' * 9)[:9], 9, 8, None, via='forms', kind='text', ctype='urlencoded'), pre=pre))
    out.append(dict(_body(b'{"a":"jj"}', 10, 10, None, via='forms', kind='text', ctype='json'), inner='forms_json'))
    out.append(dict(_body(b'{"a":"jjj"}', 11, 10, None, via='forms', kind='text', ctype='json'), inner='forms_json'))
    twins = [dict(name='a', filename=None, size=5, pad=0), dict(name='a', filename=None, size=3, pad=0),
             dict(name='f', filename='x.bin', size=100, pad=0), dict(name='f', filename='y.bin', size=0, pad=0)]
    for b_, sc in ((400, [0, 3, 1] * 200), (150, []), (400, [6] * 400)):
        out.append(dict(kind='budget', parts=twins, buf=b_, via='wsgi', sched=sc))
    seq_items = []
    for k, (n_, app_i) in enumerate([(10, 1), (3, 0), (10, 0), (5, 1), (6, 1), (26, 0), (0, 1)]):
        it = _body(d[:n_], n_, 4, 5 if app_i else None, via='wsgi')
        it.update(conf='setup' if app_i else 'ctor', app=app_i)
        seq_items.append(it)
    out.append(dict(kind='seq', apps=[['ctor', 4, None], ['setup', 4, 5]], items=seq_items))
    big = bytes(i % 251 for i in range(DEFAULT_MEMFILE + 1))
    for n_ in (DEFAULT_MEMFILE, DEFAULT_MEMFILE + 1):
        out.append(dict(_body(big[:n_], n_, DEFAULT_MEMFILE, None, via='wsgi', sched=[4999] * 30), conf='default'))
    out.append(dict(_body(b'k=' + b'v' * (DEFAULT_MEMFILE - 1), DEFAULT_MEMFILE + 1, DEFAULT_MEMFILE, None, via='gbs',
                          kind='text', ctype='urlencoded'), conf='default'))
    # applications configured through app.setup(): 413 / 400 must still be mapped (seeded change C05/change6)
    for conf in ('setup', 'setup_over'):
        out.append(dict(_body(d[:10], 10, 4, 5, via='wsgi'), conf=conf))
        out.append(dict(_body(d[:5], 5, 4, 5, via='wsgi'), conf=conf))
        out.append(dict(_body(b'a\r\n' + d[:10] + b'\r\n0\r\n\r\n', -1, 4, 5, chunked=True, via='wsgi', payload_len=10,
                              layout=[[0, 3, 13]]), conf=conf))
        out.append(dict(_body((b'k=' + b'v' * 9)[:9], 9, 8, None, via='gbs', kind='text', ctype='urlencoded'), conf=conf))
        out.append(dict(_body((b'k=' + b'v' * 9)[:9], 9, 8, None, via='forms', kind='text', ctype='urlencoded'), conf=conf))
        out.append(dict(kind='budget', parts=one, buf=44, via='wsgi', conf=conf))
        out.append(dict(kind='budget', parts=one, buf=45, via='wsgi', conf=conf))
    return out


def thorough():
    d = bytes(range(48, 48 + 40))
    for limit in range(0, 7):
        for buf in (3, 4, 5):
            for size in range(0, limit + buf + 3):
                for sched in ([], [0] * 80, [1] * 80):
                    for via in ('func',):
                        yield _body(d[:size], size, buf, limit, sched=sched, via=via)
                        enc = b''
                        layout = []
                        i = 0
                        while i < size:
                            n = min(buf + 1, size - i)
                            layout.append([len(enc), len(enc) + 3, len(enc) + 3 + n])
                            enc += b'%x\r\n' % n + d[i:i + n] + b'\r\n'
                            i += n
                        enc += b'0\r\n\r\n'
                        yield _body(enc, -1, buf, limit, chunked=True, sched=sched, via=via, payload_len=size,
                                    layout=layout)


# --------------------------------------------------------------------------
# implementation side
# --------------------------------------------------------------------------

DEFAULT_MEMFILE = 100 * 1024


def make_app(conf, buf, maxb):
    from ombott import Ombott
    cfg = dict(max_memfile_size=buf, max_body_size=maxb)
    if conf != 'default':
        from props.bodyA_shared import build_app
        return build_app(conf, cfg)
    assert conf == 'default' and buf == DEFAULT_MEMFILE and maxb is None
    return Ombott()                             # no configuration at all: 100 KiB threshold, no limit


CTYPES = {'urlencoded': 'application/x-www-form-urlencoded', 'json': 'application/json', None: None,
          'multipart': 'multipart/form-data; boundary=BnD'}


def count_items(d):
    return sum(len(v) if isinstance(v, list) else 1 for v in d.values())


def access(rq, case, seen):
    """what the application does with the request; returns the bytes it answers with"""
    for op in case.get('pre', ()):
        if op == 'body_first':                  # an earlier partial read of Request.body
            rq.body.read(2)
        elif op == 'copy_after':                # read, then go on with a copy of the request
            rq.body.read()
            rq = rq.copy()
        elif op == 'second':                    # a second Request object over the same environ
            rq = type(rq)(rq.environ, config=rq.config)
    if case['kind'] == 'body':
        b = rq.body
        seen['spilled'] = not isinstance(b, BytesIO)
        c1 = b.read()
        seen['stable'] = c1 == rq.body.read()
        return c1
    if case['kind'] == 'budget':
        if len(case['parts']) % 2:
            files = rq.files                     # Request.files before Request.forms
            f = rq.forms
        else:
            f = rq.forms
            files = rq.files
        seen['n'] = count_items(f) + count_items(files)
        seen['text_chars'] = sum(len(x) for v in f.values() for x in (v if isinstance(v, list) else [v])
                                 if isinstance(x, (str, bytes)))
        lens, types = [], set()
        for v in files.values():
            for fu in (v if isinstance(v, list) else [v]):
                types.add(type(fu.file).__name__)
                total = 0
                while True:                     # block-wise read through BytesIOProxy
                    blk = fu.file.read(7)
                    if not blk:
                        break
                    total += len(blk)
                fu.file.seek(0)
                if len(fu.file.read()) != total:        # read() without a size: the rest of the window
                    total = -1
                lens.append(total)
        seen['file_lens'] = sorted(lens)
        seen['file_types'] = sorted(types)
        return b'ok'
    if case['via'] == 'gbs' or case.get('inner') == 'gbs':
        t1 = rq._get_body_string()
        seen['stable'] = t1 == rq._get_body_string()
        return t1
    if case['ctype'] == 'json' and case.get('inner') != 'forms_json':
        v = rq.json
        seen['len'] = len(v['a']) + 8 if v else 0
    else:                                       # urlencoded, or JSON through POST / forms
        f = rq.forms
        if case['ctype'] == 'json':
            seen['len'] = len(f['a']) + 8 if len(f) else 0
        else:
            seen['len'] = sum(len(k) + 1 + len(v) for k, v in f.items()) if len(f) else 0
    return b'parsed'


def make_environ(case, st, ctype):
    env = environ('POST', '/b', **{'wsgi.input': st})
    if case.get('te') is not None:              # the header value itself; BodyMixin.chunked decides
        if case['te']:
            env['HTTP_TRANSFER_ENCODING'] = case['te']
    elif case.get('chunked'):
        env['HTTP_TRANSFER_ENCODING'] = 'chunked'
    if case.get('cl', -1) >= 0:
        env['CONTENT_LENGTH'] = str(case['cl'])
    if ctype:
        env['CONTENT_TYPE'] = ctype
    return env


def app_with_handler(conf, buf, maxb):
    app = make_app(conf, buf, maxb)
    holder = {}

    def handler():
        case, seen = holder['case'], holder['seen']
        hk = case.get('hkind')
        if hk == 'ret_body' and case['kind'] == 'body':
            # the handler hands the stored body itself to the framework: it is read AFTER _handle returned
            b = app.request.body
            seen['spilled'] = not isinstance(b, BytesIO)
            return b
        if hk in ('gen', 'hook_gen'):
            def lazily():                       # a generator handler: the body / form is used while the response
                yield access(app.request, case, seen)     # is being iterated
            return lazily()
        return access(app.request, case, seen)

    def before():
        if holder.get('case', {}).get('hkind') == 'hook_gen':
            try:
                app.request.body.read()         # a before_request hook that has already read the body
            except Exception:
                pass
    app.add_hook('before_request', before)
    app.route('/b', method='POST', callback=handler)
    return app, holder


def call_wsgi(app, holder, case, st, ctype=None):
    seen = {}
    holder.update(case=case, seen=seen)
    env = make_environ(case, st, ctype)
    out = {}

    def start_response(status, headers, exc_info=None):
        out['status'] = status
    content = b''.join(app(env, start_response))
    return finish(case, st, int(out['status'].split()[0]), content, seen, env['wsgi.errors'].getvalue())


def finish(case, st, code, content, seen, errs):
    """the observation of one request, from the status (or escaped exception) and what the handler saw"""
    if errs:
        return dict(status='traceback_on_wsgi_errors', code=code)
    if code != 200:
        st_name = {400: 'parse_error', 413: 'too_large', -1: 'bare_error'}.get(code, 'http_%d' % code)
        if case['kind'] == 'body':
            return dict(status=st_name, reqs=st.log, pos=st.pos)
        return dict(status=st_name) if case['kind'] == 'budget' else dict(status=st_name, pos=st.pos)
    if seen.get('stable') is False:
        return dict(status='unstable')
    if case['kind'] == 'body':
        return dict(status='ok', body=list(content), spilled=seen['spilled'], reqs=st.log, pos=st.pos)
    if case['kind'] == 'budget':
        return dict(status='ok', n=seen.get('n'), file_types=seen.get('file_types'), file_lens=seen.get('file_lens'),
                    text_chars=seen.get('text_chars'))
    if case['via'] == 'gbs' or case.get('inner') == 'gbs':
        return dict(status='ok', text=list(content), pos=st.pos)
    return dict(status='ok', parsed_len=seen.get('len'), pos=st.pos)


def call_request(case, st, ctype=None):
    """a Request object used directly (no application): config = DefaultConfig(...) carries the errors_map,
    a plain dict does not (RequestConfig's default {}): then the bare exceptions escape"""
    from ombott import Request, DefaultConfig, HTTPError
    from ombott.request_pkg.errors import RequestError
    cfg = dict(max_memfile_size=case['buf'], max_body_size=case.get('maxb'))
    conf_obj = {'default_config': lambda: DefaultConfig(cfg), 'raw_dict': lambda: cfg,
                'default_config_kw': lambda: DefaultConfig({'debug': False}, **cfg)}[case['rconf']]()
    rq = Request(make_environ(case, st, ctype), config=conf_obj)
    seen = {}
    try:
        content = access(rq, case, seen)
        code = 200
    except HTTPError as e:
        content, code = b'', e.status_code
    except RequestError:
        content, code = b'', -1
    return finish(case, st, code, content, seen, '')


def run_seq(case):
    apps = [app_with_handler(*a) for a in case['apps']]
    obs = []
    for it in case['items']:
        app, holder = apps[it['app']]
        obs.append(call_wsgi(app, holder, it, FragStream(it['data'], it['sched']), CTYPES[it.get('ctype')]))
    return dict(kind='seq', items=obs)


def run_impl(case):
    if case.get('tmp_broken'):
        # fault injection: no usable temporary directory — a body above max_memfile_size cannot be spooled
        import tempfile
        saved = tempfile.tempdir
        tempfile.tempdir = '/nonexistent-verif-tmp'
        try:
            try:
                return run_impl_inner(case)
            except OSError:
                return dict(status='os_error')
        finally:
            tempfile.tempdir = saved
    return run_impl_inner(case)


def run_impl_inner(case):
    from ombott.request_pkg.errors import BodySizeError, BodyParsingError
    if case['kind'] == 'seq':
        return run_seq(case)
    if case['kind'] == 'budget':
        from ombott.request_pkg.multipart import MultipartMarkup, FieldStorage
        body, _ = build_multipart(case['parts'])
        if case['via'] == 'iter_items':
            mk = MultipartMarkup(b'BnD')
            mk.parse(body)
            if mk.error is not None:
                return dict(status='markup_error')
            n = 0
            try:
                for it in FieldStorage.iter_items(BytesIO(body), mk.markups, case['buf']):
                    n += 1
            except BodySizeError:
                return dict(status='too_large', n=n)
            return dict(status='ok', n=n)
        st = FragStream(body, case.get('sched', []))
        c2 = dict(case, cl=len(body), chunked=False, maxb=None)
        app, holder = app_with_handler(case.get('conf', 'ctor'), case['buf'], None)
        return call_wsgi(app, holder, c2, st, CTYPES['multipart'])
    st = FragStream(case['data'], case['sched'])
    if case['via'] == 'func':
        from ombott.request_pkg.body_mixin import _body_read
        markup = None
        if case.get('ctype') == 'multipart':    # the keyword the request glue passes for multipart content types
            from ombott.request_pkg.multipart import MultipartMarkup
            markup = MultipartMarkup(b'BnD')
        try:
            body = _body_read(st.read, case['buf'], content_length=case['cl'], chunked=case['chunked'],
                              max_body_size=case['maxb'], markup=markup)
        except BodySizeError:
            return dict(status='too_large', reqs=st.log, pos=st.pos)
        except BodyParsingError:
            return dict(status='parse_error', reqs=st.log, pos=st.pos)
        spilled = not isinstance(body, BytesIO)
        body.seek(0)
        return dict(status='ok', body=list(body.read()), spilled=spilled, reqs=st.log, pos=st.pos)
    if case['via'] == 'request':
        return call_request(case, st, CTYPES[case.get('ctype')])
    app, holder = app_with_handler(case.get('conf', 'ctor'), case['buf'], case['maxb'])
    return call_wsgi(app, holder, case, st, CTYPES[case.get('ctype')])


def raw_config(case):
    """a Request used directly with a plain-dict config: no errors_map, the bare exceptions escape"""
    return case.get('via') == 'request' and case.get('rconf') == 'raw_dict'


def is_gbs(case):
    return case['via'] == 'gbs' or case.get('inner') == 'gbs'


def encode(case):
    if case['kind'] == 'seq':
        out = [3]
        for it in case['items']:
            e = encode(it)
            out += [len(e)] + e
        return out
    if case['kind'] == 'budget':
        # the model gets the raw body and boundary: it runs its own scanner (MultipartRef.ref), header
        # parser and FieldStorage model (Fields.iter_items); nothing is taken from the implementation
        body, _ = build_multipart(case['parts'])
        return [2, case['buf']] + enc_str(b'BnD') + enc_str(body)
    mode = (0 if case['kind'] == 'body' else 1) + (4 if raw_config(case) else 0)
    te = case.get('te') if case['via'] != 'func' else None
    return ([mode, case['cl'], 2 if te is not None else (1 if case['chunked'] else 0), case['buf'],
             0 if case['maxb'] is None else 1, case['maxb'] or 0]
            + (enc_str(te.encode('latin1')) if te is not None else [])
            + enc_str(case['data']) + enc_list(case['sched'], lambda k: [k]))


def _st(code):
    return {400: 'parse_error', 413: 'too_large'}.get(code, 'http_%d' % code)


def decode(out, case):
    r = Reader(out)
    if case['kind'] == 'seq':
        obs = []
        for it in case['items']:
            n = r.int()
            sub = r.a[r.i:r.i + n]
            r.i += n
            obs.append(decode(sub, it))
        return dict(kind='seq', items=obs)
    tag = r.int()
    if no_spool(case):
        return dict(status='no_spool')          # the model has no file system: the body would have been spooled
    escaped = 'bare_error' if raw_config(case) else 'http_500'
    if case['kind'] == 'budget':
        if tag == 0:
            return dict(status='ok', n=r.int())
        if tag == 1:
            idx, code = r.int(), r.int()
            if case['via'] == 'iter_items':
                return dict(status='too_large', n=idx)
            return dict(status=_st(code) if code >= 0 else 'http_500')
        return dict(status='model_tag_%d' % tag)
    if tag == 9:
        return dict(status='model_out_of_fuel')
    if case['kind'] == 'body':
        if tag == 0:
            sp = r.bool()
            body = r.str()
            reqs = r.list(lambda q: [q.int(), q.int()])
            return dict(status='ok', body=body, spilled=sp, reqs=reqs, pos=r.int())
        if tag == 1:
            code = r.int()
            reqs = r.list(lambda q: [q.int(), q.int()])
            return dict(status=_st(code), reqs=reqs, pos=r.int())
        reqs = r.list(lambda q: [q.int(), q.int()])
        return dict(status=escaped, reqs=reqs, pos=r.int())
    # text
    if tag == 0:
        text = r.str()
        r.list(lambda q: [q.int(), q.int()])
        if is_gbs(case):
            return dict(status='ok', text=text, pos=r.int())
        return dict(status='ok', pos=r.int())
    if tag == 1:
        code = r.int()
        r.list(lambda q: [q.int(), q.int()])
        return dict(status=_st(code), pos=r.int())
    r.list(lambda q: [q.int(), q.int()])
    return dict(status=escaped, pos=r.int())


def no_spool(case):
    return bool(case.get('tmp_broken')) and case['kind'] == 'body' and case['payload_len'] > case['buf'] and (
        case['maxb'] is None or case['payload_len'] <= case['maxb'])


def project(obs, case):
    if no_spool(case) and not (obs.get('status') == 'ok' and len(obs.get('body') or []) > case['buf']):
        return dict(status='no_spool')          # any failure will do; what must not happen is an in-memory body
    if case['kind'] == 'seq':
        return dict(kind='seq', items=[project(o, it) for o, it in zip(obs.get('items', []), case['items'])]) \
            if 'items' in obs else obs
    if case['kind'] == 'budget':
        o = {k: v for k, v in obs.items() if k in ('status', 'n')}
        if case['via'] == 'wsgi' and o.get('status') != 'ok':
            o.pop('n', None)
        return o
    if case['kind'] == 'text' and not is_gbs(case):
        return {k: v for k, v in obs.items() if k != 'parsed_len'}
    return obs


# --------------------------------------------------------------------------
# the property, stated on the implementation
# --------------------------------------------------------------------------

def payload_bytes_before(case, pos):
    if not case['chunked']:
        return pos
    n = 0
    for ls, ds, de in case['layout']:
        n += max(0, min(pos, de) - ds)
    return n


def oracle(case, obs):
    if case['kind'] == 'seq':
        for i, (it, o) in enumerate(zip(case['items'], obs.get('items') or [])):
            f = oracle(it, o)
            if f:
                return 'request %d of a sequence on shared application objects: %s' % (i, f)
        if len(obs.get('items') or []) != len(case['items']):
            return 'sequence not completed: %s' % (obs,)
        return None
    st = obs.get('status')
    if no_spool(case):
        if st == 'ok' and len(obs.get('body') or []) > case['buf']:
            return 'body of %d bytes above max_memfile_size=%d handed over %s although no temporary file could be created' % (
                case['payload_len'], case['buf'], 'on disk' if obs.get('spilled') else 'IN MEMORY')
        return None
    if raw_config(case) and st == 'bare_error':
        st = 'too_large' if case.get('expect') != 'any' else 'parse_error'   # no errors_map: the bare exception
    if case['kind'] == 'budget':
        _, mine = build_multipart(case['parts'])
        need = sum(h + (0 if f else d) for h, d, f in mine)
        if need > case['buf']:
            if st == 'http_500':
                return 'multipart text over the in-memory budget answered 500 instead of 413'
            if st != 'too_large':
                return 'headers+text fields of %d bytes read into memory with max_memfile_size=%d (%s)' % (
                    need, case['buf'], st)
            return None
        if st != 'ok':
            return 'multipart form needing %d bytes of memory refused with max_memfile_size=%d (%s)' % (
                need, case['buf'], st)
        if obs.get('n') != len(case['parts']):
            return '%s of %d parts delivered' % (obs.get('n'), len(case['parts']))
        if obs.get('file_types') not in (None, [], ['BytesIOProxy']):
            return 'file part held as %s' % obs['file_types']
        want = sorted(p['size'] for p in case['parts'] if p['filename'])
        if obs.get('file_lens') is not None and obs['file_lens'] != want:
            return 'uploads read block-wise have %s bytes, submitted %s' % (obs['file_lens'], want)
        text = sum(p['size'] for p in case['parts'] if p['filename'] is None)
        if obs.get('text_chars') is not None and obs['text_chars'] != text:
            return 'the form holds %d characters of text in memory, the text fields submitted are %d bytes (max_memfile_size=%d)' % (
                obs['text_chars'], text, case['buf'])
        return None

    buf, maxb, size = case['buf'], case['maxb'], case['payload_len']
    if st not in ('ok', 'too_large') and not (st == 'parse_error' and case['expect'] in ('any', 'reject')):
        return 'unexpected outcome %s' % (obs,)
    if case['kind'] == 'body':
        for n, p in obs['reqs']:
            if n > buf:
                return 'read(%d) larger than the buffer %d' % (n, buf)
        if case['expect'] == 'any':
            return None
        if case['expect'] == 'reject':
            return 'malformed chunked body accepted (%d bytes)' % len(obs['body']) if st == 'ok' else None
        if maxb is not None and size > maxb:
            if st != 'too_large':
                return 'body of %d bytes accepted although max_body_size=%d' % (size, maxb)
            taken = payload_bytes_before(case, obs['pos'])
            if taken > maxb + buf:
                return '%d payload bytes taken from the stream before the 413 (limit %d + buffer %d)' % (taken, maxb, buf)
            if not case['chunked']:
                for n, p in obs['reqs']:
                    if p + n > maxb + buf:
                        return 'read(%d) at stream position %d reaches beyond limit %d + buffer %d' % (n, p, maxb, buf)
            else:
                nlines = sum(1 for ls, ds, de in case['layout'] if ls < obs['pos'])
                if obs['pos'] > maxb + buf + nlines * (buf + 2):
                    return 'stream consumed to %d before the 413' % obs['pos']
            return None
        if st != 'ok':
            return 'body of %d bytes within max_body_size=%s refused (%s)' % (size, maxb, st)
        if len(obs['body']) != size:
            return 'body has %d bytes, expected %d' % (len(obs['body']), size)
        if obs['spilled'] != (size > buf):
            return 'body of %d bytes with max_memfile_size=%d kept %s' % (size, buf, 'on disk' if obs['spilled'] else 'in memory')
        return None
    # text of a form / JSON body
    if st == 'ok' and 'text' in obs and len(obs['text']) > buf:
        return 'form text of %d bytes returned although max_memfile_size=%d' % (len(obs['text']), buf)
    if case['expect'] == 'any':
        return None
    if size > buf or (maxb is not None and size > maxb):
        if st != 'too_large':
            return 'form text of %d bytes loaded although max_memfile_size=%d max_body_size=%s' % (size, buf, maxb)
        return None
    if st != 'ok':
        return 'form text of %d bytes within max_memfile_size=%d refused (%s)' % (size, buf, st)
    if 'text' in obs and len(obs['text']) != size:
        return 'form text has %d bytes, expected %d' % (len(obs['text']), size)
    if obs.get('parsed_len') is not None and size >= 2 and obs['parsed_len'] != size:
        return 'parsed form covers %d bytes, expected %d' % (obs['parsed_len'], size)
    return None


def nontrivial(case, obs):
    if case['kind'] == 'seq':
        return len(case['items']) >= 3 and len(set(o.get('status') for o in obs.get('items', []))) >= 2
    if case['kind'] == 'budget':
        return len(case['parts']) >= 2
    size, buf, maxb = case['payload_len'], case['buf'], case['maxb']
    near = abs(size - buf) <= buf + 1 or (maxb is not None and abs(size - maxb) <= buf + 1)
    nreads = len(obs.get('reqs') or []) if case['kind'] == 'body' else 2
    return near and nreads >= 2


def key(case):
    import json
    return json.dumps(case, sort_keys=True)


def classify(case, obs):
    if case['kind'] == 'seq':
        return 'seq/%d requests/%s' % (len(case['items']), '+'.join(sorted(set(str(o.get('status'))
                                                                             for o in obs.get('items', [])))))
    if case['kind'] == 'budget':
        return 'budget/%s%s/%s' % (case['via'], '+' + case['conf'] if case.get('conf', 'ctor') != 'ctor' else '',
                                   obs.get('status'))
    size, buf, maxb = case['payload_len'], case['buf'], case['maxb']
    rel = 'nolimit' if maxb is None else 'size<limit' if size < maxb else 'size=limit' if size == maxb else \
        'size<=limit+buf' if size <= maxb + buf else 'size>limit+buf'
    via = case['via'] + ('+' + case['conf'] if case.get('conf', 'ctor') != 'ctor' else '') + (
        '+' + case['rconf'] if case.get('rconf') else '') + ('+pre' if case.get('pre') else '') + (
        '+' + case['inner'] if case.get('inner') else '')
    return '%s/%s/%s/%s/%s/%s' % (case['kind'], via, 'chunked' if case['chunked'] else 'cl', rel,
                                  'spill' if size > buf else 'mem', obs.get('status'))


def shrink(case):
    if case['kind'] == 'seq':
        its = case['items']
        for i in range(len(its)):
            if len(its) > 1:
                yield dict(case, items=its[:i] + its[i + 1:])
        return
    if case['kind'] == 'budget':
        p = case['parts']
        for i in range(len(p)):
            if len(p) > 1:
                yield dict(case, parts=p[:i] + p[i + 1:])
        return
    s = case['sched']
    for i in range(len(s)):
        yield dict(case, sched=s[:i] + s[i + 1:])
    if case['via'] == 'wsgi':
        yield dict(case, via='func')


PREDICATES = {}

MANIFEST = dict(
    text=('Proof: theorems in coq/props/C13.v (Coq, closed under the global context) state for ALL data, limits, '
          'buffer sizes > 0 and read fragmentations: under Content-Length framing the body is refused with the status '
          'errors_map gives BodySizeError (413, from gen/Gen.v) iff min(CL, bytes available) > max_body_size, and then '
          'at most limit + buffer bytes were requested/consumed; under chunked framing a legal encoding is refused iff '
          'its payload exceeds the limit, after at most limit + buffer payload bytes and (buffer+2) framing bytes per '
          'chunk line seen; within the limit the body is accepted unchanged; spooled to disk iff larger than '
          'max_memfile_size; urlencoded/JSON text above max_memfile_size is answered 413 and never returned; the '
          'multipart in-memory budget admits a form iff headers + text fields fit, whatever the size of file parts — '
          'proved on the budget arithmetic, refined to the real field-layer model (Fields.iter_items) for every '
          'markup list, and lifted through BodyPipeline.process for every browser-encoded form under both framings. '
          'Models (coq/model/Body.v, Chunked.v, BodyLimits.v, Fields.v, MultipartRef.v) are tied to /repo by differential correspondence.'),
    note=('Trusted: Coq kernel + vm_compute; extraction; the Python harness; the stream model. Modelled not verified: '
          'temporary file, parse_qsl/json.loads.'),
    technique='Coq proof (loop invariants with a size limit for all read schedules) + model/implementation '
              'correspondence',
    design_ref='DESIGN.md section 4, C13',
)


# --------------------------------------------------------------------------
# audit (round 4): what of the anchored code can influence the observation, and which case kind exercises it
# --------------------------------------------------------------------------
API_SURFACE = [
    ('_iter_body / _body_read(content_length=, max_body_size=)', 'covered by body/func, body/wsgi, body/request'),
    ('_iter_chunked under a limit', 'covered by body/* chunked (legal, with extensions) and the malformed ones (expect=reject)'),
    ('_body_read spool switch (BytesIO -> TemporaryFile)', 'covered: type of Request.body at size = threshold, +1, default 100 KiB'),
    ('_body_read(markup=)', 'covered by budget/wsgi (fragmented multipart bodies) and body/func+multipart (markup passed '
                            'directly; closing delimiter followed by an epilogue around and far above the limit)'),
    ('BodyMixin._get_body_string', 'covered by text/gbs (twice on one request), text/forms, text/request'),
    ('BodyMixin.json / POST json branch / forms', 'covered by text/forms json (Request.json) and inner=forms_json (Request.forms); '
                                                  'excluded: invalid JSON / JSON that is no object -> 400 (C12)'),
    ('BodyMixin.POST multipart branch, forms, files', 'covered by budget/wsgi (files before forms and after; repeated names)'),
    ('FieldStorage.read / iter_items(max_read)', 'covered by budget/iter_items and budget/wsgi; excluded: undecodable / nameless '
                                                 'headers, data before the first delimiter, missing data section -> 400 (C12)'),
    ('BytesIOProxy.read(sz) / read()', 'covered by budget/wsgi (block-wise and whole reads of every upload)'),
    ('BodyMixin.content_length / chunked', 'covered: Transfer-Encoding spellings from the pool shared with C05 (list values with '
                                           'blanks, other codings first, case, substrings); Content-Length spellings: C05'),
    ('Request.body read earlier / Request.copy() after the read / second Request over the environ', "covered by pre ops"),
    ('BaseRequest._raise, errors_map present / absent', 'covered by conf ctor/setup/setup_over/default and via=request with '
                                                        'DefaultConfig vs plain dict (C13_unmapped_errors_escape)'),
    ('Ombott.__init__ / setup', 'covered by conf'),
    ('the stored body after _handle returned', 'covered by hkind ret_body (returned as the response), gen (read while the response '
                                               'is iterated), hook_gen (before_request hook + generator) on both sides of max_memfile_size'),
    ('multipart part with filename=""', 'covered by budget cases (file for the budget whatever its size; the form must not hold its '
                                        'content as text); that it is delivered as None is finding F10 (C07)'),
    ('DefaultConfig(src, **kw) / SimpleConfig.get_from: source mapping + keyword fall-backs', 'covered by conf kw / kw_split / '
                                                                                               'kw_setup / kw_only and rconf default_config_kw'),
    ('config max_body_size None / 0 / n, max_memfile_size', 'covered (sizes at limit-1, limit, limit+1, limit+buf, 10x)'),
    ('config errors_map overridden by the user', 'excluded: the status is then the user\'s choice'),
    ('application and Request objects reused, shared HTTPError instances, two applications', 'covered by kind=seq '
                                                                                             '(C13_response_function_of_request)'),
    ('wsgi.input short reads / early EOF', 'covered by every body/text case and fragmented multipart bodies'),
    ('temporary file on disk', 'content checked by the correspondence only; failure to create it: covered by tmp_broken '
                               '(tempfile.tempdir -> nonexistent): never an in-memory body above the threshold'),
]

# --------------------------------------------------------------------------
# dev-only: line coverage of the anchored functions  (VERIF_COVERAGE=1 ./check C13 --no-coq)
# --------------------------------------------------------------------------
COVERAGE_TARGETS = {
    'ombott/request_pkg/body_mixin.py': ['_iter_body', '_iter_chunked', '_body_read', 'BodyMixin._body',
                                         'BodyMixin.body', 'BodyMixin.content_length', 'BodyMixin.chunked',
                                         'BodyMixin._get_body_string', 'BodyMixin.json', 'BodyMixin.POST',
                                         'BodyMixin.forms', 'BodyMixin.files'],
    'ombott/request_pkg/multipart.py': ['FieldStorage.read', 'FieldStorage.iter_items', 'BytesIOProxy.read'],
    'ombott/request_pkg/request.py': ['BaseRequest._raise', 'BaseRequest.setup', 'BaseRequest.__new__'],
    'ombott/ombott.py': ['Ombott.setup', 'Ombott.__init__'],
}
from props.bodyA_cov import traced  # noqa: E402
run_impl = traced(ID, run_impl, COVERAGE_TARGETS)
