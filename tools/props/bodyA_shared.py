"""Pools shared by the C05 and C13 harnesses (cluster bodyA)."""

# Transfer-Encoding values under which the body is chunked: 'chunked' in value.lower()
# (case variants, list spellings with and without blanks, other codings before / after, substrings,
#  latin-1 neighbours — WSGI header values are latin-1)
TE_CHUNKED = ['chunked', 'chunked', 'chunked', 'Chunked', 'CHUNKED', 'chunKed',
              'gzip, chunked', 'deflate, Chunked', 'gzip , chunked', 'gzip,chunked', 'GZIP,  CHUNKED ',
              'chunked, gzip', ' chunked ', '\tchunked', 'xchunkedx',
              '\xc0chunked\xff', 'CHUNKED\xb5']
# ... and values under which it is not
TE_OTHER = ['identity', '', 'chunke', 'chunk ed', 'chun\xc7ked', 'gzip', 'gzip, deflate', 'c,h,u,n,k,e,d']


# every way the API offers to hand a configuration to an application
CONFS = ('ctor', 'setup', 'setup_over', 'kw', 'kw_split', 'kw_setup', 'kw_only')


def build_app(conf, cfg):
    """cfg: the settings the case wants in force (max_memfile_size, max_body_size, optionally errors_map).
    ctor: Ombott(dict); setup: Ombott() then setup(dict); setup_over: setup(dict) over other constructor values;
    kw: a source mapping WITHOUT the keys plus keyword fall-backs (DefaultConfig(src, **kw)); kw_split: the source
    mapping holds one key (it wins over the keyword of the same name), the keywords the rest; kw_setup: such a config
    object through setup(); kw_only: keywords only (source None)"""
    from ombott import Ombott, DefaultConfig
    buf = cfg['max_memfile_size']
    if conf == 'ctor':
        return Ombott(cfg)
    if conf == 'setup':
        app = Ombott()
        app.setup(cfg)
        return app
    if conf == 'setup_over':
        app = Ombott(dict(max_memfile_size=buf + 3, max_body_size=1))
        app.setup(cfg)
        return app
    if conf == 'kw':
        return Ombott(DefaultConfig({'debug': False}, **cfg))
    if conf == 'kw_split':
        return Ombott(DefaultConfig({'max_memfile_size': buf, 'catchall': True}, **dict(cfg, max_memfile_size=buf + 7)))
    if conf == 'kw_setup':
        app = Ombott()
        app.setup(DefaultConfig({'debug': False}, **cfg))
        return app
    if conf == 'kw_only':
        return Ombott(DefaultConfig(None, **cfg))
    raise ValueError(conf)
