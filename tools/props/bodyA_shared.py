"""Pools shared by the C05 and C13 harnesses (cluster bodyA)."""

# Transfer-Encoding values under which the body is chunked: 'chunked' in value.lower()
# (case variants, list spellings with and without blanks, other codings before / after, substrings,
#  latin-1 neighbours — WSGI header values are latin-1)
TE_CHUNKED = ['chunked', 'chunked', 'chunked', 'Chunked', 'CHUNKED', 'chunKed',
              'gzip, chunked', 'deflate, Chunked', 'gzip , chunked', 'gzip,chunked', 'GZIP,  CHUNKED ',
              'chunked, gzip', ' chunked ', '\tchunked', 'xchunkedx',
              '\xc0chunked\xff', 'CHUNKED\xb5']
# ... and values under which it is not
TE_OTHER = ['identity', '', 'chunke', 'chunk ed', 'chun\xc7ked', 'gzip', 'gzip, deflate', 'c,h,u,n,k,e,d']
