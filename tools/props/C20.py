"""C20 -- framework error pages never reflect request data unescaped.

Implementation side: a fresh ``Ombott`` application per case, driven through
``Ombott.__call__`` with an environ whose PATH_INFO / QUERY_STRING / Host /
X-Forwarded-* values carry markup, quotes, braces, format-string syntax,
control characters and non-ASCII text; every framework error kind x HTML/JSON x
debug on/off, and the last-resort page.  Observation: status line,
Content-Type and body of the WSGI response.

Model side (coq/model/ErrPage.v) receives the error kind, the URL string the
implementation computed (``request.url`` -- urlquote/urljoin/geturl are not
modelled, the theorems quantify over every URL string), the Accept header, the
debug flag and, for the kinds that carry them, the exception and the traceback
text (``format_exc()`` is recorded by a wrapper in the module namespace), and
must reproduce status, Content-Type and body exactly.

The oracle shares nothing with the model: it renders the same request with its
request-controlled parts replaced by plain letters and demands that the real
body has exactly the same number of ``<``, ``>``, ``"`` and ``'`` characters
and the same tag sequence as that twin, that every ``&`` begins a character
reference, that (debug off) neither the exception text nor a traceback shows in
an HTML page (the page must be identical when the handler fails with another
exception text), and that a JSON body is accepted by ``json.loads``.
"""
import io
import json
import re

from props.common import Reader, enc_str

ID = 'C20'
COQ_MODEL = 'model.ErrPage'
COQ_CORR = 'corr_C20'
N_QUICK = 1400
N_THOROUGH = 9000
VM_CASES = 30
THOROUGH_EXHAUSTIVE = True      # thorough(): every vocabulary item x every request position x every kind/trigger
RULE = ('cases = corpus + random requests (PATH_INFO, QUERY_STRING, Host, X-Forwarded-Host/-Proto, SCRIPT_NAME built '
        'from a vocabulary of markup, quotes, braces, str.format syntax, entity look-alikes, control and non-ASCII '
        'characters) x error kind (404, 405, 400 undecodable path, the three errors_map entries, 500 handler crash, '
        '500 failing iterator, 500 unsupported type, 500 too many iterations, last-resort page by five triggers) x '
        'Accept (HTML / JSON variants) x debug, each through Ombott.__call__ on a fresh application; plus a '
        'primitive stream (html.escape, html_escape, repr, json.dumps on random Unicode incl. surrogates and astral '
        'characters; the JSON reader of the spec against json.loads on valid and mutated texts); the thorough tier adds every single vocabulary item in every request position (path tail, query string, Host) x every kind x HTML/JSON and in every last-resort trigger (exhaustive over the vocabulary). non-trivial = an '
        'error response whose request-controlled parts contain at least one of < > & " \' { } \\ or a control / '
        'non-ASCII character, or a primitive case with such a character, or a sequence of 2-3 requests on ONE application '
        'object (same URL asked as HTML then JSON, JSON then HTML, other query strings/hosts/kinds; every response must equal the '
        'model\'s stateless answer and the answer of a fresh application) in which both formats are requested; distinct by '
        '(kind, format, debug, request parts). Round-4 dimensions, drawn at random on every kind: custom @error handlers that '
        'delegate to default_error_handler, request properties read before routing, debug given by constructor / setup() / '
        'attribute and switched between the requests of a sequence, route hooks, X-Script-Name, app_name_header, domain_map, '
        'missing environ keys, https/443, HEAD, an exception whose repr() raises, ordinary traffic (13 output types) and a '
        'second application inside sequences; one request part blown up to 1-5 kB around the markup (5 % of the requests, '
        'plus corpus cases at 1000..4096 characters; the ten non-ASCII characters whose NFC/NFD/NFKC/NFKD/case image contains '
        '< > " \' & (and look-alikes of { } \\ % /) are part of the path / message alphabet, as UTF-8 bytes and %-escapes also '
        'of the query / Host alphabet; the thorough tier sweeps every length 960..1060 and up to 8 kB)')
TRUSTED = [
    'section variable isprintable (Unicode table behind str.isprintable, consulted by repr for code points >= 128): '
    'arbitrary in every theorem; in the correspondence the harness supplies the non-printable code points of each case',
    'modelled, not verified (tied by correspondence only): html.escape, repr(str), json.dumps string escaping, '
    'str.format over error.html (template taken from Gen.error_template); the literal texts of model/ErrPage.v are '
    'proved equal to the translator\'s constants (C20_texts_pinned) except the Accept prefix of is_json_requested, '
    'the PATH_INFO default "/" of the last-resort page and Python\'s None/null spellings',
    'not modelled: urlquote/urljoin/SplitResult.geturl (the model receives request.url; theorems quantify over any '
    'URL string), format_exc() (the traceback text is an input), which handler behaviour triggers which error kind',
    'the JSON reader in model/ErrPage.v (spec side of C20_json_valid) is compared with json.loads on the fragment '
    '{string: string|null}',
]
ASSUMPTIONS = [
    'error.html contains no format spec or conversion (translator fails closed otherwise)',
    'framework-generated errors only: bodies/status of application-raised HTTPError and custom error handlers are the '
    'application\'s responsibility',
    'environ strings are latin-1 decoded bytes (WSGI), so request.url never contains a lone surrogate',
]

# round-4 audit: everything of the anchored code that can influence status / Content-Type / body of a framework
# error response, and the case kind or option that exercises it
API_SURFACE = [
    ('error_render.render(err_resp, url, debug)', 'covered by page/seq (every kind), debug on and off'),
    ('error_render.render: unprintable exception (repr raises)', 'covered by page crash + badrepr (debug on)'),
    ('error_render._html_lns (module-level template cache)', 'covered: first HTML page of the run fills it, every later page '
     'and every application (seq napps=2) reads it; the fresh-application comparison in seq would show a stale entry'),
    ('error_render.render: <style> block copied without formatting', 'covered by every HTML page (Gen.error_template has '
     'the block as a literal; str.format on it would raise KeyError -> last-resort page -> disagreement)'),
    ('error.html fields e.status / e.body / url / exception / traceback', 'covered by page (model fills Gen.error_template)'),
    ('Ombott.default_error_handler(res)', 'covered by page/seq; called directly by _cast (loops kind) and through error_handlers'),
    ('Ombott.error(code) handlers that call default_error_handler', "covered by via='custom'"),
    ('Ombott.error(code) handlers that raise', 'covered by crit errhandler / errhandler400'),
    ('Ombott.error(404, rule) partial hooks', "covered as ordinary traffic (seq noise kind 'sub404', hooks=True); their output is "
     "the application's"),
    ('Ombott.on_route hooks on the 404 / handler path', 'covered by hooks=True'),
    ('Ombott.__init__(config) debug', "covered by debug_via='ctor'"),
    ('Ombott.setup(config) debug', "covered by debug_via='setup' and by seq steps that switch debug on the live application"),
    ('app.config.debug assignment', "covered by debug_via='attr'"),
    ('config.catchall=False', 'excluded: the exception propagates to the server, no response is produced'),
    ('KeyboardInterrupt / SystemExit / MemoryError re-raise (_handle, _cast, wsgi)', 'excluded: no response is produced'),
    ('config.errors_map (default)', 'covered by map0/map1/map2; all three entries through Gen.errors_map'),
    ('config.errors_map (application supplied)', "excluded: bodies are the application's"),
    ('config.max_body_size / max_memfile_size', 'covered only as trigger of map1 (C13 owns the limits)'),
    ('config.allow_x_script_name + X-Script-Name', 'covered by xsn_cfg / xsn (also sent when the option is off)'),
    ('config.app_name_header + client sending that header', 'covered by app_hdr / xapp'),
    ('config.domain_map (PATH_INFO prefix, environ[app_name_header])', "covered by dmap='fixed'/'fromhost' on 404 and crit errhandler"),
    ('Ombott.wsgi last-resort page, debug off/on', 'covered by crit (six triggers, incl. a request path that makes '
     'request.url raise ValueError inside default_error_handler) x debug'),
    ('Ombott.wsgi HEAD / no-body statuses', "covered by method='HEAD' (page, crit, seq); 1xx/204/304 are not error pages"),
    ('Ombott._handle 400 undecodable path (request re-initialised, F11)', 'covered by 400path, errhandler400, also inside seq'),
    ('Ombott._handle 500', 'covered by crash'), ('Ombott._cast 500 x3', 'covered by unhandled / type / loops'),
    ('Ombott.handler 404 / 405', 'covered by 404 / 405'),
    ('Ombott._cast ordinary outputs (str, bytes, empty, lists, generators, files, file_wrapper, close)',
     "covered as ordinary traffic between error requests (seq noise kind 'ok', 13 variants)"),
    ('request.is_json_requested (cached in environ)', 'covered by accept variants; primed before routing by prime=True'),
    ('request.url / urlparts / fullpath / script_name / path (cached in environ)', 'covered; read before routing by prime=True; '
     'Host, X-Forwarded-Host, X-Forwarded-Proto, SCRIPT_NAME, SERVER_NAME/PORT incl. 443/https and non-default ports, '
     'missing QUERY_STRING / SERVER_NAME / SERVER_PORT / wsgi.url_scheme / SCRIPT_NAME (drop)'),
    ('common_helpers.html_escape', 'covered by crit and prim html_escape'),
    ('html.escape / repr / json.dumps', 'covered by page and by the prim stream'),
    ('HTTPError objects shared through DefaultConfig.errors_map (class level)', 'covered by seq with napps=2 and repeated map kinds'),
    ('threads (Response/Request thread-local state, _html_lns filled concurrently)', 'excluded: C08 owns concurrency'),
    ('HTTPError raised by the application (abort, static_file)', "excluded: status and body are the application's (one "
     "variant runs as ordinary traffic: okvar='abort_gen')"),
]

KINDS = ['404', '405', '400path', 'map0', 'map1', 'map2', 'crash', 'unhandled', 'type', 'loops']
CRIT = ['errhandler', 'hdr', 'surrogate', 'nopath', 'errhandler400', 'badurl']
TYPES = ['int', 'float', 'tuple', 'object', 'Weird']

VOCAB = ['<', '>', '&', '"', "'", '{', '}', '{{', '}}', '{0}', '{e.__class__}', '{url}', '{e.body}', '{exception!r}',
         '{traceback:>9}', '%s', '%(x)s', '\\', '\\n', '\\x41', '&amp;', '&lt;script&gt;', '&#x27;', '&#39', '&quot',
         '<script>alert(1)</script>', '"><img src=x onerror=alert(1)>', "';alert(1)//", '</tt>', '</pre><h1>', '<!--',
         '-->', 'javascript:', '?', '#', '/', '//', '%3C', '%', '+', ' ', ';', '=', ':', '@', '[', ']', 'a', 'zq9', 'Z',
         '0', '.', '..', '-', '_', '~', '$', '!', '*', '(', ')', ',', '|', '^', '`']
CTRL = ['\x00', '\x01', '\t', '\n', '\r', '\x0b', '\x1b', '\x1f', '\x7f']
HIGH_LATIN = ['\x80', '\x85', '\xa0', '\xad', '\xe9', '\xff', '\xc3', '\xa9']
UNI = ['\xe9', '\u0416', '\u2028', '\u2029', '\u200b', '\ufeff', '\ufffd', '\U0001F600', '\U000E0001', '\U0010FFFF',
       '\u0378', '\xa0', '\xad', '\u3000', '\u0600']

# every non-ASCII character whose NFC/NFD/NFKC/NFKD/casefold/lower/upper/title image contains one of < > " ' &
# (enumerated over all of Unicode 15; seeded change C20-11 normalised the finished last-resort page)
COMPAT = ['\u226e', '\u226f', '\ufe60', '\ufe64', '\ufe65', '\uff02', '\uff06', '\uff07', '\uff1c', '\uff1e']
# look-alikes of the other characters the page treats specially: { } \\ % /
COMPAT_MORE = ['\uff5b', '\uff5d', '\uff3c', '\ufe68', '\uff05', '\uff0f', '\ufe5b', '\ufe5c']
COMPAT_WORDS = ['\uff1cimg src=x onerror=alert(1)\uff1e', '\uff1cscript\uff1ealert(1)\uff1c/script\uff1e',
                '\ufe64b\ufe65', '\uff02\uff1e\uff1csvg/onload=1\uff1e', '\uff07;alert(1)//', '\uff06lt;', '\ufe60amp;',
                '\uff5b0\uff5d', '\uff5be.__class__\uff5d', 'a\u226eb\u226fc']
UNI = UNI + COMPAT + COMPAT_MORE + COMPAT_WORDS
# the same characters as a query string or a Host header can carry them: UTF-8 bytes (latin-1 view) and %-escapes
HIGH_LATIN = HIGH_LATIN + [c.encode('utf8').decode('latin1') for c in COMPAT] + \
    [''.join('%%%02X' % b for b in c.encode('utf8')) for c in COMPAT]

_CACHE = {}
_SETUP = {}


# ---------------------------------------------------------------------------
# implementation side
# ---------------------------------------------------------------------------

def _setup():
    """wrap format_exc in ombott.ombott's namespace so that the traceback text
    the framework obtained can be handed to the model"""
    if _SETUP:
        return _SETUP
    import ombott.ombott as om
    rec = []
    orig = om.format_exc
    if getattr(orig, '_c20', None) is None:
        def format_exc(*a, **kw):
            v = orig(*a, **kw)
            rec.append(v)
            return v
        format_exc._c20 = rec
        om.format_exc = format_exc
    else:
        rec = orig._c20
    _SETUP['rec'] = rec
    _SETUP['om'] = om
    return _SETUP


class Weird:
    pass


def _type_obj(name):
    return {'int': 5, 'float': 1.5, 'tuple': (1,), 'object': object(), 'Weird': Weird()}[name]


class BadRepr(Exception):
    """an exception whose repr() fails (error_render.render guards against it)"""

    def __repr__(self):
        raise RuntimeError('no repr')


APP_KEYS = ('msg', 'tyname', 'via', 'prime', 'debug_via', 'hooks', 'xsn_cfg', 'dmap', 'app_hdr', 'badrepr')


def _config(case, debug):
    cfg = dict(debug=bool(debug))
    if case.get('kind') == 'map1':
        cfg['max_body_size'] = 3
    if case.get('xsn_cfg'):
        cfg['allow_x_script_name'] = True
    if case.get('app_hdr'):
        cfg['app_name_header'] = case['app_hdr']
    dm = case.get('dmap')
    if dm == 'fixed':
        cfg['domain_map'] = lambda host: 'sub'
    elif dm == 'fromhost':
        # the name goes in front of PATH_INFO, which has to stay UTF-8 on the wire
        cfg['domain_map'] = lambda host: (host or '').split('.')[0].encode('utf8').decode('latin1')
    return cfg


def _set_debug(app, case, debug, how):
    """the three ways an application's debug flag gets its value"""
    cfg = _config(case, debug)
    if how == 'setup':
        app.setup(cfg)
    elif how == 'attr':
        app.config.debug = bool(debug)
    else:
        raise ValueError(how)


def _make_app(case):
    from ombott import Ombott, HTTPResponse, HTTPError
    from ombott.request_pkg.errors import RequestError
    how = case.get('debug_via', 'ctor')
    debug = bool(case.get('debug'))
    if how == 'ctor':
        app = Ombott(_config(case, debug))
    elif how == 'setup':
        app = Ombott()
        app.setup(_config(case, debug))
    else:
        app = Ombott(_config(case, False))
        app.config.debug = debug
    msg = case.get('msg')
    app.c20_arg = None
    app.c20_okvar = 'str'
    app.c20_debug = debug

    @app.get('/w/<x:path>')
    def w(x):
        return 'ok'

    @app.route('/crash/<x:path>', method='ANY')
    def crash(x):
        app.c20_arg = x
        if case.get('badrepr'):
            raise BadRepr(x if msg is None else msg)
        raise ValueError(x if msg is None else msg)

    @app.route('/unh/<x:path>', method='ANY')
    def unh(x):
        app.c20_arg = x

        def g():
            raise KeyError(x if msg is None else msg)
            yield 'never'
        return g()

    @app.route('/type/<x:path>', method='ANY')
    def typ(x):
        return [_type_obj(case.get('tyname', 'int'))]

    @app.route('/loops/<x:path>', method='ANY')
    def loops(x):
        r = HTTPResponse()
        r.body = r
        return r

    @app.route('/body/<x:path>', method='ANY')
    def body(x):
        return app.request.body.read()

    @app.route('/rq/<x:path>', method='ANY')
    def rq(x):
        app.request._raise(RequestError('x'), RequestError)

    @app.route('/hdr/<x:path>', method='ANY')
    def hdr(x):
        app.response.headers.update({'X-A': 5})
        return 'x'

    @app.route('/sur/<x:path>', method='ANY')
    def sur(x):
        return '\ud800'

    @app.route('/ok/<x:path>', method='ANY')
    def ok(x):
        """ordinary, successful traffic between the error requests of a sequence"""
        v = app.c20_okvar
        if v == 'bytes':
            return b'ok'
        if v == 'empty':
            return ''
        if v == 'list':
            return [b'o', b'k']
        if v == 'liststr':
            return ['', 'o', 'k']
        if v == 'gen':
            def g():
                yield 'o'
                yield 'k'
            return g()
        if v == 'gen_empty':
            return iter([''])
        if v in ('file', 'filew'):
            return io.BytesIO(b'ok')
        if v == 'closeiter':
            class It:
                def __iter__(self):
                    return iter(['o', 'k'])

                def close(self):
                    pass
            return It()
        if v == 'abort_gen':
            def g2():
                raise HTTPError(418, 'application text')
                yield 'never'
            return g2()
        if v == 'json_ct':
            app.response.content_type = 'application/json'
            return '{}'
        if v == 'cookie':
            app.response.set_cookie('k', 'v')
            return 'ok'
        return 'ok'

    if case.get('prime'):
        # application code that reads the request properties before routing (they are cached in environ)
        def prime():
            rq_ = app.request
            rq_.url, rq_.is_json_requested, rq_.urlparts, rq_.fullpath, rq_.script_name, rq_.path
        app.add_hook('before_request', prime)
    if case.get('hooks'):
        app.on_route('/zz', lambda p: None)
        app.on_route('/crash', lambda p: None)
        app.error(404, '/sub404')(lambda route, params: 'custom page of the application')
    crit_eh = case['t'] == 'crit' and case['trigger'] in ('errhandler', 'errhandler400')
    if case.get('via') == 'custom' and not crit_eh:
        # custom @error handlers that hand over to the default one
        for code in (400, 404, 405, 413, 500):
            app.error(code)(lambda e: app.default_error_handler(e))
    if crit_eh:
        code = 404 if case['trigger'] == 'errhandler' else 400

        @app.error(code)
        def eh(e):
            raise RuntimeError(msg if msg is not None else 'handler failed')
    return app


# the fixed prefix selects the route (hence the error kind); the 'p' keeps the wildcard non-empty
PREFIX = {'404': '/zz/p', '405': '/w/p', '400path': '/\xff/p', 'map0': '/rq/p', 'map1': '/body/p', 'map2': '/body/p',
          'crash': '/crash/p', 'unhandled': '/unh/p', 'type': '/type/p', 'loops': '/loops/p', 'ok': '/ok/p',
          'sub404': '/sub404/p'}
CPREFIX = {'badurl': '/x://[g', 'errhandler': '/zz/p', 'hdr': '/hdr/p', 'surrogate': '/sur/p', 'nopath': '/', 'errhandler400': '/\xfe/p'}
# kinds whose request must match a <x:path> wildcard ('.+' does not match LF: such a path is a 404)
ROUTED = {'405', 'map0', 'map1', 'map2', 'crash', 'unhandled', 'type', 'loops', 'hdr', 'surrogate', 'ok'}
NOISE = {'ok', 'sub404'}        # ordinary traffic inside a sequence: sent, not compared


UNDECODABLE = {'400path', 'errhandler400'}      # kinds whose PATH_INFO is meant not to be UTF-8


def _decodable(s):
    try:
        s.encode('latin1').decode('utf8')
        return True
    except UnicodeError:
        return False


def _fit(c):
    """keep the case inside its error kind: no LF in a tail that has to match a
    path wildcard; a tail that is not UTF-8 only where the kind is about that"""
    k = c.get('kind') or c.get('trigger')
    if k in ROUTED and '\n' in c['tail']:
        c['tail'] = c['tail'].replace('\n', '\x0b')
    if k == 'badurl' and (c.get('accept') or '').startswith('application/json'):
        c['accept'] = 'text/html'
    if k not in UNDECODABLE and not _decodable(c['tail']):
        c['tail'] = c['tail'].encode('utf8').decode('latin1')      # send the same characters as UTF-8
    return c


def _environ(case):
    """PATH_INFO = fixed prefix selecting the error kind + the case's tail (a latin-1 'wire' string)"""
    if case['t'] == 'page':
        kind = case['kind']
        path = PREFIX[kind] + case['tail']
        method = 'POST' if kind in ('405', 'map1', 'map2') else case.get('method', 'GET')
    else:
        path = CPREFIX[case['trigger']] + case['tail']
        if case['trigger'] == 'badurl':
            # '/<scheme>://[<text>]': urljoin/urlsplit refuse the bracketed host while request.url is computed for the
            # 404 page (ValueError quoting the text) -> last-resort page (seeded change C20-19 turned it into a 400 page)
            path += ']'
        method = case.get('method', 'GET')
    env = {
        'REQUEST_METHOD': method, 'PATH_INFO': path, 'QUERY_STRING': case.get('qs', ''),
        'SERVER_NAME': case.get('server_name', 'localhost'), 'SERVER_PORT': case.get('port', '80'),
        'SERVER_PROTOCOL': 'HTTP/1.1', 'wsgi.url_scheme': case.get('scheme', 'http'),
        'wsgi.input': io.BytesIO(b''), 'wsgi.errors': io.StringIO(), 'wsgi.version': (1, 0),
        'wsgi.multithread': False, 'wsgi.multiprocess': False, 'wsgi.run_once': False,
        'SCRIPT_NAME': case.get('script', ''),
    }
    for k, ek in (('host', 'HTTP_HOST'), ('xfh', 'HTTP_X_FORWARDED_HOST'), ('xfp', 'HTTP_X_FORWARDED_PROTO'),
                  ('accept', 'HTTP_ACCEPT'), ('xsn', 'HTTP_X_SCRIPT_NAME')):
        if case.get(k) is not None:
            env[ek] = case[k]
    if case.get('xapp') is not None and case.get('app_hdr'):
        env[case['app_hdr']] = case['xapp']        # the client sends the header the application reads its name from
    if case.get('okvar') == 'filew':
        env['wsgi.file_wrapper'] = lambda f, *a: [f.read()]
    for k in case.get('drop') or []:
        env.pop(k, None)
    if case['t'] == 'page' and case['kind'] == 'map1':
        env['wsgi.input'] = io.BytesIO(b'zzzzz')
        env['CONTENT_LENGTH'] = '5'
    if case['t'] == 'page' and case['kind'] == 'map2':
        env['wsgi.input'] = io.BytesIO(b'zz\r\n')
        env['HTTP_TRANSFER_ENCODING'] = 'chunked'
    if case['t'] == 'crit' and case['trigger'] == 'nopath':
        del env['PATH_INFO']
    return env


def _call(case, app=None):
    """one request (on a fresh application unless one is given) -> everything observed"""
    st = _setup()
    rec = st['rec']
    del rec[:]
    if app is None:
        app = _make_app(case)
    app.c20_arg = None
    app.c20_okvar = case.get('okvar', 'str')
    want = bool(case.get('debug'))
    if app.c20_debug != want:
        # the flag is changed on the live application between two requests
        _set_debug(app, case, want, 'attr' if case.get('debug_via') == 'attr' else 'setup')
        app.c20_debug = want
    env = _environ(case)
    got = {}

    def start_response(status, headers, exc_info=None):
        got['status'] = status
        got['headers'] = list(headers)
        got['exc'] = exc_info[1] if exc_info else None
        return lambda data: None
    out = app(env, start_response)
    body = b''.join(out)
    close = getattr(out, 'close', None)
    if close:
        close()
    ctypes = [v for k, v in got['headers'] if k.lower() == 'content-type']
    try:
        text = body.decode('utf8')
    except UnicodeDecodeError:
        text = None
    try:
        url = app.request.url
    except Exception as e:      # noqa
        url = None
    try:
        accept = app.request.environ.get('HTTP_ACCEPT')
    except Exception:            # noqa
        accept = None
    exc = got.get('exc')
    return dict(status=got['status'], ctype=ctypes[0] if len(ctypes) == 1 else ctypes, body=text,
                body_bytes=None if text is not None else list(body),
                url=url, accept_seen=accept, path_info_after=env.get('PATH_INFO'), handler_arg=app.c20_arg,
                tbs=list(rec), crit_exc=_exc_desc(exc))


def _exc_desc(exc):
    if exc is None:
        return None
    if len(exc.args) == 1 and isinstance(exc.args[0], str) and type(exc).__repr__ is BaseException.__repr__:
        return ['msg', type(exc).__name__, exc.args[0]]
    return ['raw', repr(exc)]


BENIGN = 'abcdefghijklmnopqrstuvwxyz'


def _benign(case):
    """the same request with every request-controlled part replaced by plain
    letters (same error kind, same handler, same Accept class, same debug)"""
    c = dict(case)
    c['tail'] = 'benign'
    c['qs'] = 'q=1' if case.get('qs') else ''
    for k in ('host', 'xfh'):
        if case.get(k) is not None:
            c[k] = 'benign.example'
    if case.get('xfp') is not None:
        c['xfp'] = 'https'
    if case.get('script'):
        c['script'] = '/app'
    if case.get('xsn') is not None:
        c['xsn'] = '/app'
    if case.get('xapp') is not None:
        c['xapp'] = '/ab'
    if case.get('msg') is not None:
        c['msg'] = 'benign message'
    return c


def _observe(case):
    k = json.dumps(case, sort_keys=True)
    if k not in _CACHE:
        if len(_CACHE) > 50000:
            _CACHE.clear()
        o = _call(case)
        if case['t'] in ('page', 'crit'):
            b = _call(_benign(case))
            if case['t'] == 'crit' and case['trigger'] == 'badurl' and b['status'] != o['status']:
                # whether urlsplit refuses '/x://[...]' depends on the characters between the brackets (and on
                # app_name_header cutting the path): that is no statement of C20.  Compare with a plain-letter
                # request that ends on the same kind of page: the last-resort page, or the ordinary 404 page.
                base = {k: v for k, v in case.items() if k not in ('trigger', 'xapp', 'app_hdr', 'dmap')}
                for alt in (dict(base, t='crit', trigger='hdr'), dict(base, t='page', kind='404')):
                    b2 = _call(_benign(alt))
                    if b2['status'] == o['status']:
                        b = b2
                        break
            o['twin_body'] = b['body']
            o['twin_status'] = b['status']
            o['twin_ctype'] = b['ctype']
            if case['t'] == 'page' and case['kind'] in ('crash', 'unhandled') and not case.get('debug'):
                # the same request, the handler failing with another exception text
                o['altmsg_body'] = _call(dict(case, msg='altered exception text 7391'))['body']
        _CACHE[k] = o
    return _CACHE[k]


def _prim_impl(case):
    fn, s = case['fn'], case['s']
    if fn == 'escape':
        import html
        return dict(out=html.escape(s))
    if fn == 'html_escape':
        from ombott.common_helpers import html_escape
        return dict(out=html_escape(s))
    if fn == 'repr':
        return dict(out=repr(s))
    if fn == 'dumps':
        return dict(out=json.dumps(s))
    if fn == 'loads':
        try:
            v = json.loads(s, object_pairs_hook=list)
        except ValueError:
            return dict(parsed='bad')
        except RecursionError:
            return dict(parsed='bad')
        # the fragment the spec reader covers: a top-level object whose values are strings or null
        if not isinstance(v, list) or not s.lstrip(' \t\n\r').startswith('{'):
            return dict(parsed='bad', outside_fragment=True)
        for kv in v:
            if not (isinstance(kv, list) or isinstance(kv, tuple)) or len(kv) != 2 \
                    or not (kv[1] is None or isinstance(kv[1], str)):
                return dict(parsed='bad', outside_fragment=True)
        return dict(parsed=[[k, val] for k, val in v])
    raise ValueError(fn)


def _step_case(case, i):
    """request number i of a sequence as a stand-alone 'page' case"""
    s = dict(case['steps'][i])
    s['t'] = 'page'
    s['debug'] = bool(s['debug']) if 'debug' in s else bool(case.get('debug'))
    for k in APP_KEYS:
        if k in case:
            s[k] = case[k]
    return s


def _observe_seq(case):
    """all requests of the case, in order, on ONE application object; each is
    also sent to a fresh application (with its plain-letter twin) for the oracle"""
    k = json.dumps(case, sort_keys=True)
    if k not in _CACHE:
        n = len(case['steps'])
        first = dict(_step_case(case, 0), debug=bool(case.get('debug')))
        apps = [_make_app(first) for _ in range(max(1, int(case.get('napps', 1))))]
        steps = []
        for i in range(n):
            sc = _step_case(case, i)
            o = _call(sc, app=apps[case['steps'][i].get('app', 0) % len(apps)])
            steps.append(o)
        for i in range(n):
            if case['steps'][i]['kind'] in NOISE:
                continue
            single = _observe(_step_case(case, i))
            o = steps[i]
            for f in ('twin_body', 'twin_status', 'twin_ctype', 'altmsg_body'):
                if f in single:
                    o[f] = single[f]
            o['fresh'] = dict(status=single['status'], ctype=single['ctype'], body=single['body'])
        _CACHE[k] = dict(steps=steps)
    return _CACHE[k]


# ---- dev-only line coverage of the anchored functions: VERIF_COVERAGE=1 ./check C20 --no-coq ----
COVER_TARGETS = [
    ('ombott/error_render.py', ['render']),
    ('ombott/ombott.py', ['Ombott.default_error_handler', 'Ombott.wsgi', 'Ombott._handle', 'Ombott.handler',
                          'Ombott._cast', 'Ombott.error', 'Ombott.setup']),
    ('ombott/common_helpers.py', ['html_escape']),
    ('ombott/request_pkg/props_mixin.py', ['PropsMixin.url', 'PropsMixin.urlparts', 'PropsMixin.fullpath',
                                           'PropsMixin.script_name', 'PropsMixin.is_json_requested', 'PropsMixin.path']),
]
_COV = {}


def _cov_setup():
    import ast
    import atexit
    import os
    import sys
    import ombott
    root = os.path.dirname(os.path.dirname(os.path.abspath(ombott.__file__)))
    want = {}
    for rel, names in COVER_TARGETS:
        path = os.path.join(root, rel)
        tree = ast.parse(open(path).read())
        lines = {}

        def visit(node, prefix):
            for n in getattr(node, 'body', []):
                if isinstance(n, ast.ClassDef):
                    visit(n, prefix + n.name + '.')
                elif isinstance(n, (ast.FunctionDef, ast.AsyncFunctionDef)):
                    q = prefix + n.name
                    if q in names:
                        body_lines = set()
                        for st in n.body:
                            for sub in ast.walk(st):
                                if isinstance(sub, ast.stmt) and not (
                                        isinstance(sub, ast.Expr) and isinstance(sub.value, ast.Constant)
                                        and isinstance(sub.value.value, str)):
                                    # a compound statement is reached when its (possibly multi-line) test is
                                    body_lines.add(sub.test.lineno if isinstance(sub, (ast.If, ast.While))
                                                   else sub.lineno)
                        lines[q] = body_lines
        visit(tree, '')
        want[path] = lines
    hit = {p: set() for p in want}

    def tracer(frame, event, arg):
        fn = frame.f_code.co_filename
        if fn in hit:
            if event == 'line':
                hit[fn].add(frame.f_lineno)
            return tracer
        return None
    _COV.update(want=want, hit=hit, tracer=tracer)

    def report():
        tot = got = 0
        out = []
        for p, fns in want.items():
            src = open(p).read().split('\n')
            for q, ls in sorted(fns.items()):
                miss = sorted(ls - hit[p])
                tot += len(ls)
                got += len(ls) - len(miss)
                out.append('%s:%s  %d/%d' % (os.path.relpath(p, root), q, len(ls) - len(miss), len(ls)))
                for ln in miss:
                    out.append('    unreached %d: %s' % (ln, src[ln - 1].strip()))
        out.append('COVERAGE C20 anchored functions: %d/%d lines' % (got, tot))
        sys.stderr.write('\n'.join(out) + '\n')
    atexit.register(report)


def run_impl(case):
    import os
    import sys
    if os.environ.get('VERIF_COVERAGE') == '1':
        if not _COV:
            _cov_setup()
        sys.settrace(_COV['tracer'])
        try:
            return _run_impl(case)
        finally:
            sys.settrace(None)
    return _run_impl(case)


def _run_impl(case):
    if case['t'] == 'prim':
        return _prim_impl(case)
    if case['t'] == 'seq':
        return _observe_seq(case)
    return _observe(case)


def project(obs, case):
    if case['t'] == 'prim':
        if 'parsed' in obs:
            return dict(parsed=obs['parsed'])
        return obs
    if case['t'] == 'seq':
        if 'steps' not in obs:
            return obs
        return dict(steps=[dict(status=o['status'], ctype=o['ctype'], body=o['body'])
                           for s, o in zip(case['steps'], obs['steps']) if s['kind'] not in NOISE])
    if 'status' not in obs:
        return obs
    return dict(status=obs['status'], ctype=obs['ctype'], body=obs['body'])


# ---------------------------------------------------------------------------
# model side
# ---------------------------------------------------------------------------

def _s(x):
    return enc_str([ord(c) for c in x])


def _opt(x):
    return [0] if x is None else [1] + _s(x)


def _nonprintable(*strs):
    seen = set()
    for s in strs:
        if s:
            for ch in s:
                if ord(ch) >= 128 and not ch.isprintable():
                    seen.add(ord(ch))
    return enc_str(sorted(seen))


def _errors_map_index(name):
    from ombott import DefaultConfig
    names = [k.__name__ for k in DefaultConfig.errors_map]
    return names.index(name)


MAPNAME = {'map0': 'RequestError', 'map1': 'BodySizeError', 'map2': 'BodyParsingError'}
EXC_CLS = {'crash': 'ValueError', 'unhandled': 'KeyError'}


def _exc_enc(d):
    if d is None:
        return [0]
    if d[0] == 'msg':
        return [1] + _s(d[1]) + _s(d[2])
    return [2] + _s(d[1])


def encode(case):
    if case['t'] == 'prim':
        tag = {'escape': 2, 'html_escape': 3, 'repr': 4, 'dumps': 5, 'loads': 6}[case['fn']]
        return [tag] + _nonprintable(case['s']) + _s(case['s'])
    if case['t'] == 'seq':
        obs = _observe_seq(case)
        ints, strs = [], []
        n = 0
        for i, o in enumerate(obs['steps']):
            if case['steps'][i]['kind'] in NOISE:
                continue
            a, b = _page_payload(_step_case(case, i), o)
            ints += a
            strs += b
            n += 1
        return [7] + _nonprintable(*strs) + [n] + ints
    o = _observe(case)
    url = o['url'] if o['url'] is not None else ''
    debug = 1 if case.get('debug') else 0
    if case['t'] == 'crit' and case['trigger'] == 'badurl' and o['crit_exc'] is None and o['url'] is not None:
        # urlsplit accepted this path after all (depends on the bracketed text / app_name_header): the framework
        # produced its ordinary 404 page, which is what the model is asked for
        ints, strs = _page_payload(dict(case, t='page', kind='404'), o)
        return [0] + _nonprintable(*strs) + ints
    if case['t'] == 'crit':
        tb = o['tbs'][-1] if o['tbs'] else ''
        exc = o['crit_exc']
        strs = [tb, o['path_info_after']] + (exc[1:] if exc else [])
        head = 1 if case.get('method') == 'HEAD' else 0
        return [1] + _nonprintable(*strs) + _opt(o['path_info_after']) + [debug] + _exc_enc(exc) + _s(tb) + [head]
    ints, strs = _page_payload(case, o)
    return [0] + _nonprintable(*strs) + ints


def _page_payload(case, o):
    """the model's view of one framework-error request: (ints, strings that occur in it)"""
    url = o['url'] if o['url'] is not None else ''
    debug = 1 if case.get('debug') else 0
    kind = case['kind']
    tb = None
    exc = None
    if kind in ('crash', 'unhandled'):
        tb = o['tbs'][0] if o['tbs'] else None
        m = case.get('msg')
        if m is None:
            m = o['handler_arg']          # the handler raised with the matched wildcard text
        if kind == 'unhandled':
            exc = ['msg', 'KeyError', m]          # KeyError overrides __str__ only; repr is the generic one
        elif case.get('badrepr'):
            exc = ['raw', '<unprintable %s object>' % (BadRepr,)]     # what render() substitutes
        else:
            exc = ['msg', 'ValueError', m]
    kcode = {'404': [0], '405': [1], '400path': [2], 'crash': [4], 'unhandled': [5], 'loops': [7]}.get(kind)
    if kind in MAPNAME:
        kcode = [3, _errors_map_index(MAPNAME[kind])]
    if kind == 'type':
        kcode = [6] + _s(str(type(_type_obj(case.get('tyname', 'int')))))
    strs = [url, tb] + (exc[1:] if exc else [])
    head = 1 if case.get('method') == 'HEAD' else 0
    return kcode + _exc_enc(exc) + _opt(tb) + _s(url) + _opt(o['accept_seen']) + [debug, head], strs


def _str(r):
    return ''.join(chr(c) for c in r.str())


def decode(out, case):
    r = Reader(out)
    if case['t'] == 'prim':
        if case['fn'] == 'loads':
            tag = r.int()
            if tag == 0:
                def member(q):
                    k = _str(q)
                    v = _str(q) if q.int() == 1 else None
                    return [k, v]
                return dict(parsed=r.list(member))
            return dict(parsed='bad' if tag == 1 else 'model_tag_%d' % tag)
        return dict(out=_str(r))

    def resp(q):
        tag = q.int()
        if tag == 0:
            return dict(status=_str(q), ctype=_str(q), body=_str(q))
        return dict(status='model_tag_%d' % tag)
    if case['t'] == 'seq':
        return dict(steps=r.list(resp))
    return resp(r)


# ---------------------------------------------------------------------------
# oracle (independent of the model)
# ---------------------------------------------------------------------------

ENTITY = re.compile(r'&(amp|lt|gt|quot|#x27|#039|#39);')
TAG = re.compile(r'<[^<>]*>')


def _request_parts(case):
    return [case.get(k) for k in ('tail', 'qs', 'host', 'xfh', 'xfp', 'script') if case.get(k)]


def oracle(case, obs):
    if case['t'] == 'prim':
        return _prim_oracle(case, obs)
    if case['t'] == 'seq':
        if 'steps' not in obs:
            return 'no responses observed: %s' % obs
        n = len(obs['steps'])
        for i, o in enumerate(obs['steps']):
            sc = _step_case(case, i)
            if sc['kind'] in NOISE:
                if str(o.get('status', ''))[:1] == '5':
                    return 'request %d of %d (ordinary traffic) answered %r' % (i + 1, n, o.get('status'))
                continue
            f = _resp_oracle(sc, o)
            if f is None and 'fresh' in o and (o['status'], o['ctype'], o['body']) != \
                    (o['fresh']['status'], o['fresh']['ctype'], o['fresh']['body']):
                f = ('answered %r / %r, but the same request on a fresh application is answered %r / %r%s: the response '
                     'depends on earlier requests' % (o['status'], o['ctype'], o['fresh']['status'], o['fresh']['ctype'],
                                                      '' if o['body'] != o['fresh']['body'] else ' (same body)'))
            if f:
                return 'request %d of %d on one application object (Accept %r): %s' % (i + 1, n, sc.get('accept'), f)
        return None
    return _resp_oracle(case, obs)


def _resp_oracle(case, obs):
    if 'status' not in obs:
        return 'no response observed: %s' % obs
    body = obs['body']
    if body is None:
        return 'body is not UTF-8'
    ctype = obs['ctype']
    if not isinstance(ctype, str):
        return 'Content-Type headers: %r' % (ctype,)
    debug = bool(case.get('debug'))
    if case.get('method') == 'HEAD':
        if body != '':
            return 'HEAD request answered with a body of %d characters' % len(body)
        acc = obs.get('accept_seen')
        if case['t'] == 'page' and bool(acc and acc.startswith('application/json')) != ctype.startswith('application/json'):
            return 'HEAD: Accept %r answered with Content-Type %r' % (acc, ctype)
        return None
    if ctype.startswith('application/json'):
        if case['t'] == 'crit':
            return 'last-resort page labelled JSON'
        try:
            v = json.loads(body)
        except ValueError as e:
            return 'JSON requested, body is not valid JSON: %s' % e
        if not isinstance(v, dict) or sorted(v) != ['body', 'exception', 'traceback']:
            return 'JSON error body has unexpected shape: %r' % (sorted(v) if isinstance(v, dict) else type(v).__name__)
        if not isinstance(v['body'], str) or not isinstance(v['exception'], str) \
                or not (v['traceback'] is None or isinstance(v['traceback'], str)):
            return 'JSON error body has unexpected value types'
        return None
    if not ctype.startswith('text/html'):
        return 'error page with Content-Type %r' % ctype
    acc = obs.get('accept_seen')
    if acc and acc.startswith('application/json') and case['t'] == 'page':
        return 'JSON was requested (Accept: %r) but the error came back as %s' % (acc, ctype)
    if debug:
        return None          # the property is about debug off
    twin = obs.get('twin_body')
    if twin is None or obs.get('twin_status') != obs['status']:
        return ('request data changed the outcome: %r for this request, %r for a plain-letter request of the same shape'
                % (obs['status'], obs.get('twin_status')))
    for ch, name in (('<', '<'), ('>', '>'), ('"', 'double quote'), ("'", 'single quote')):
        if body.count(ch) != twin.count(ch):
            return ('%d x %s in the page, %d in the page for a plain-letter request of the same shape: request data '
                    'reached the page unescaped' % (body.count(ch), name, twin.count(ch)))
    if TAG.findall(body) != TAG.findall(twin):
        return 'tag sequence differs from the page for a plain-letter request'
    for m in re.finditer('&', body):
        if not ENTITY.match(body, m.start()):
            return 'bare & at offset %d (%r)' % (m.start(), body[m.start():m.start() + 12])
    if 'Traceback (most recent call last)' in body:
        return 'traceback shown with debug off'
    if 'altmsg_body' in obs and obs['altmsg_body'] != body:
        return 'with debug off the page depends on the text of the exception the handler raised'
    return None


def _prim_oracle(case, obs):
    fn, s = case['fn'], case['s']
    if fn in ('escape', 'html_escape'):
        out = obs['out']
        if any(ch in out for ch in '<>"\''):
            return '%s output contains one of < > " \'' % fn
        for m in re.finditer('&', out):
            if not ENTITY.match(out, m.start()):
                return '%s output has a bare &' % fn
        import html
        if html.unescape(out) != s and not re.search(r'&#?\w+', s):
            return '%s output does not unescape to the input' % fn
    if fn == 'dumps':
        try:
            back = json.loads(obs['out'])
        except ValueError as e:
            return 'json.dumps output rejected by json.loads: %s' % e
        if back != s and not re.search('[\ud800-\udbff][\udc00-\udfff]', s):
            return 'json.dumps/json.loads does not round-trip'
    if fn == 'repr':
        out = obs['out']
        for ch in '<>&':
            if out.count(ch) > s.count(ch):
                return 'repr introduced %r' % ch
    return None


# ---------------------------------------------------------------------------
# cases
# ---------------------------------------------------------------------------

def _wire(u):
    """a unicode path as WSGI presents it: UTF-8 bytes shown as latin-1"""
    return u.encode('utf8', 'surrogatepass').decode('latin1')


def page(kind, tail='x', **kw):
    c = dict(t='page', kind=kind, tail=tail, qs=kw.pop('qs', ''), debug=kw.pop('debug', False))
    c.update(kw)
    return _fit(c)


def crit(trigger, tail='x', **kw):
    c = dict(t='crit', trigger=trigger, tail=tail, qs=kw.pop('qs', ''), debug=kw.pop('debug', False))
    c.update(kw)
    return _fit(c)


def prim(fn, s):
    return dict(t='prim', fn=fn, s=s)


SEQ_KINDS = [k for k in KINDS if k != 'map1']       # map1 needs its own application configuration
STEP_KEYS = ('kind', 'tail', 'qs', 'host', 'xfh', 'xfp', 'script', 'port', 'server_name', 'accept', 'method')


def step(kind, tail='x', qs='', **kw):
    s = dict(kind=kind, tail=tail, qs=qs)
    s.update(kw)
    return _fit(s)


def seq(steps, **kw):
    """several requests answered by ONE application object, in this order"""
    c = dict(t='seq', steps=list(steps), debug=kw.pop('debug', False))
    c.update(kw)
    return c


XSS = '<script>alert(1)</script>'
ATTR = '"><img src=x onerror=alert(1)>'


def corpus():
    out = []
    for k in KINDS:
        out.append(page(k, tail=_wire(XSS), qs='a=<b>&c="d"&e=\'f\'', host='ex<am>ple.com"'))
        out.append(page(k, tail="a'b\"c{0}}}{e.__class__}{url}", qs='{e.body}{exception!r}%s', accept='application/json'))
        out.append(page(k, tail='plain', qs=''))
    out += [
        page('404', tail='{', qs='}'), page('404', tail='{{}}', qs='{traceback:>9}'),
        page('404', tail='x', qs='\\\n\r\t\x00\x7f\x80\xa0\xad\xff'),
        page('404', tail=_wire('\xe9\u2028\U0001F600'), qs='&amp;&lt;&#x27;&'),
        page('404', tail='x', host="a'b", qs="'"), page('404', tail='x', host='a"b', qs='"'),
        page('404', tail='x', xfh='<svg/onload=1>', host='ignored'),
        page('404', tail='x', xfp='java<script>', qs=''),
        page('404', tail='x', script='/<i>/', qs=''),
        page('404', tail='x', accept='application/json; q=0.9'), page('404', tail='x', accept='application/jsonx'),
        page('404', tail='x', accept='text/html,application/json'), page('404', tail='x', accept=''),
        page('404', tail='x', accept='APPLICATION/JSON'),
        page('crash', tail='x', msg='<b>boom</b>'), page('crash', tail='x', msg='<b>boom</b>', debug=True),
        page('crash', tail='x', msg='it\'s "q" \\ \n\x00\x7f\xa0\xad\u2028\U0001F600', debug=True),
        page('crash', tail='x', msg="it's", debug=True),
        page('crash', tail='x', msg='<b>boom</b>\ud800\U0001F600\x7f', accept='application/json'),
        page('crash', tail=_wire('<i>\xe9'), msg=None), page('crash', tail=_wire('<i>\xe9'), msg=None, debug=True),
        page('crash', tail='x', msg='secret-token-1234'),
        page('unhandled', tail='x', msg='<u>gen</u>', debug=True),
        page('unhandled', tail='x', msg='<u>gen</u>', accept='application/json'),
        page('400path', tail=XSS, qs='<q>', accept='application/json'),
    ]
    for t in TYPES:
        out.append(page('type', tail='<x>', tyname=t))
    for tr in CRIT:
        out.append(crit(tr, tail=_wire(XSS + ATTR + "'&{0}"), qs='<q>'))
        out.append(crit(tr, tail=_wire(XSS), debug=True, msg='<b>handler</b> failed & "so" it\'s'))
        out.append(crit(tr, tail='plain'))
    J = 'application/json'
    for k in SEQ_KINDS:
        # the same URL first as an HTML page then as JSON, and the other way round (seeded change C20-5)
        out.append(seq([step(k, 'same', 'q=<b>', accept='text/html'), step(k, 'same', 'q=<b>', accept=J)], msg='m'))
        out.append(seq([step(k, 'same', 'q=<b>', accept=J), step(k, 'same', 'q=<b>'), step(k, 'same', 'q=<b>', accept=J)],
                       msg='m'))
    out += [
        seq([step('404', 'u', 'a=1'), step('404', 'u', 'a=<2>'), step('404', 'u', 'a=1', accept=J)]),
        seq([step('404', 'u', XSS), step('405', 'u', XSS, accept=J), step('404', 'u', XSS, accept=J)]),
        seq([step('crash', 'u', ''), step('crash', 'u', '', accept=J)], msg='first <b>'),
        seq([step('crash', 'u', '', accept=J), step('crash', 'u', '')], msg='first <b>', debug=True),
        seq([step('404', 'u', '', host='a<b>'), step('404', 'u', '', host='c"d', accept=J), step('404', 'u', '', host='a<b>')]),
    ]
    Q = 'q=<b>&"\'{0}'
    out += [
        # round 4 audit: custom handlers delegating to the default one, primed request caches, debug set by
        # setup()/attribute, route hooks, X-Script-Name, app_name_header / domain_map, missing environ keys, HEAD
        page('404', 'u', qs=Q, via='custom'), page('405', 'u', qs=Q, via='custom', accept=J),
        page('crash', 'u', qs=Q, via='custom', msg='<m>'), page('loops', 'u', qs=Q, via='custom'),
        page('404', 'u', qs=Q, prime=True), page('404', 'u', qs=Q, prime=True, accept=J),
        page('crash', 'u', qs=Q, msg='<m>', debug=True, debug_via='setup'),
        page('crash', 'u', qs=Q, msg='<m>', debug=True, debug_via='attr'),
        page('crash', 'u', qs=Q, msg='<m>', debug=False, debug_via='setup'),
        crit('hdr', 'u', qs=Q, debug=True, debug_via='setup'), crit('hdr', 'u', qs=Q, debug=True, debug_via='attr'),
        page('404', 'u', qs=Q, hooks=True), page('crash', 'u', qs=Q, hooks=True, msg='<m>'),
        page('404', 'u', qs=Q, xsn_cfg=True, xsn='/<i>"/'), page('404', 'u', qs=Q, xsn_cfg=True, xsn='/x', script='/real'),
        page('404', 'u', qs=Q, xsn='/ignored<i>'),
        page('404', 'u', qs=Q, app_hdr='HTTP_X_APPNAME', xapp='/zz<b>'), page('404', 'u', qs=Q, app_hdr='HTTP_X_APPNAME', xapp='x' * 40),
        page('404', 'u', qs=Q, dmap='fixed', host='h.example'), page('404', 'u', qs=Q, dmap='fromhost', host='<b>.example'),
        page('404', 'u', qs=Q, dmap='fromhost', xfh='"x.y', host='h', app_hdr='HTTP_X_APPNAME'),
        crit('errhandler', 'u', qs=Q, dmap='fromhost', host='<b>&.example'), crit('errhandler', 'u', dmap='fixed', debug=True),
        page('404', 'u', qs=Q, drop=['QUERY_STRING']), page('404', 'u', drop=['SERVER_NAME', 'SERVER_PORT']),
        page('404', 'u', qs=Q, drop=['wsgi.url_scheme', 'SCRIPT_NAME'], accept=J),
        page('404', 'u', qs=Q, port='443', scheme='https'), page('404', 'u', qs=Q, port='443'), page('404', 'u', port='80', scheme='https'),
        page('404', 'u', qs=Q, xfp='https', port='443'),
        page('404', 'u', qs=Q, method='HEAD'), page('404', 'u', qs=Q, method='HEAD', accept=J),
        page('crash', 'u', qs=Q, method='HEAD', msg='<m>', debug=True), page('loops', 'u', method='HEAD'),
        crit('hdr', 'u', qs=Q, method='HEAD'), crit('errhandler', 'u', qs=Q, method='HEAD', debug=True),
        # an exception whose repr() raises
        page('crash', 'u', qs=Q, badrepr=True, msg='<m>'), page('crash', 'u', qs=Q, badrepr=True, msg='<m>', debug=True),
        page('crash', 'u', qs=Q, badrepr=True, msg='<m>', accept=J), page('crash', 'u', badrepr=True, msg='<m>', accept=J, debug=True),
        # sequences: ordinary traffic in between, two applications, the debug flag switched on the live application
        seq([step('ok', 'u', okvar='json_ct'), step('404', 'u', Q), step('ok', 'u', okvar='cookie'), step('404', 'u', Q, accept=J)]),
        seq([step('404', 'u', Q, accept=J), step('ok', 'u', okvar='gen'), step('404', 'u', Q)]),
        seq([step('ok', 'u', okvar='abort_gen'), step('crash', 'u', Q), step('ok', 'u', okvar='file')], msg='<m>'),
        seq([step('sub404', 'u', Q), step('404', 'u', Q), step('ok', 'u', okvar='gen_empty'), step('404', 'u', Q, accept=J)], hooks=True),
        seq([step('crash', 'u', Q, debug=False), step('crash', 'u', Q, debug=True), step('crash', 'u', Q, debug=False)], msg='<m>'),
        seq([step('crash', 'u', Q, debug=True), step('crash', 'u', Q, debug=False)], msg='<m>', debug_via='attr'),
        seq([step('crash', 'u', Q, app=0, debug=True), step('crash', 'u', Q, app=1), step('404', 'u', Q, app=0, accept=J),
             step('404', 'u', Q, app=1)], msg='<m>', napps=2),
        seq([step('map0', 'u', Q, app=0), step('map0', 'u', Q, app=1, accept=J), step('map2', 'u', Q, app=0)], napps=2),
        seq([step('404', 'u', Q), step('404', 'u', Q, accept=J)], via='custom', prime=True),
    ]
    for v in OKVARS:
        out.append(seq([step('404', 'u', Q, accept=J), step('ok', 'u', okvar=v), step('404', 'u', Q)]))
    out.append(seq([step('ok', 'u', okvar='closeiter', method='HEAD'), step('404', 'u', Q, method='HEAD'), step('404', 'u', Q)]))
    out += [
        prim('escape', '&<>"\''), prim('html_escape', '&<>"\''), prim('escape', '&amp;&&lt;'), prim('html_escape', ''),
        prim('repr', ''), prim('repr', "'"), prim('repr', '"'), prim('repr', '\'"'), prim('repr', '\\\n\r\t\x00\x1f\x7f'),
        prim('repr', '\x80\xa0\xad\xff\u0100\u2028\ud800\U0001F600\U000E0001\U0010FFFF\u0378'),
        prim('dumps', ''), prim('dumps', '"\\\n\r\t\x08\x0c\x00\x1f\x7f\x80\xff\u2028\uffff\U00010000\U0010FFFF\ud800\udc00'),
        prim('dumps', '/<>&\''),
        prim('loads', '{}'), prim('loads', ' { } '), prim('loads', '{"a": "b", "c": null}'), prim('loads', '{"a":"b",}'),
        prim('loads', '{"a" "b"}'), prim('loads', '{"a": "\\ud83d\\ude00"}'), prim('loads', '{"a": "\\ud83d\\u0041"}'),
        prim('loads', '{"a": "\ud83d\\ude00"}'), prim('loads', '{"a": "\\ud83d\\ud83d\\ude00"}'),
        prim('loads', '{"a": "\\u12"}'), prim('loads', '{"a": "\\u00zz"}'), prim('loads', '{"a": "\\x41"}'),
        prim('loads', '{"a": "\\/\\b\\f\\n\\r\\t\\"\\\\"}'), prim('loads', '{"a": "\t"}'), prim('loads', '{"a": "\x7f\x80"}'),
        prim('loads', '{"a": nul}'), prim('loads', '{"a": null} x'), prim('loads', '{"a": null}\n'), prim('loads', ''),
        prim('loads', '{"a": "b"'), prim('loads', '{"a": "b" "c": "d"}'), prim('loads', '{"a": "b", "a": "c"}'),
        prim('loads', '"a"'), prim('loads', '[]'), prim('loads', '{"a": "\\uDBFF\\uDFFF"}'), prim('loads', '{"a": "\\uAbCd"}'),
        prim('loads', '{"a": 1}'), prim('loads', '{"a": {}}'), prim('loads', '{a: "b"}'), prim('loads', "{'a': 'b'}"),
        prim('loads', '\ufeff{}'), prim('loads', '{"a":\x0c"b"}'), prim('loads', '{"a": "b"}\x00'),
    ]
    # compatibility characters that fold to markup under Unicode normalisation (seeded change C20-11)
    CW = '\uff1cimg src=x onerror=alert(1)\uff1e\uff02\uff07\uff06\ufe64b\ufe65\ufe60\u226e\u226f'
    for tr in CRIT:
        out.append(crit(tr, tail=_wire(CW), qs=_wire(CW)))
        out.append(crit(tr, tail=_wire(CW), debug=True, msg=CW))
    for k in KINDS:
        out.append(page(k, tail=_wire(CW), qs=_wire(CW), host=_wire('\uff1cb\uff1e')))
    out += [page('crash', tail='u', msg=CW), page('crash', tail='u', msg=CW, debug=True), page('crash', tail='u', msg=CW, accept=J),
            page('404', tail='u', qs='%EF%BC%9Cb%EF%BC%9E'), page('404', tail=_wire(CW), accept=J),
            prim('escape', CW), prim('html_escape', CW), prim('repr', CW), prim('dumps', CW)]
    # request paths that urljoin/urlsplit refuse while the error page computes request.url (seeded change C20-19)
    out += [crit('badurl', tail=_wire('<img src=a onerror=alert(1)>')), crit('badurl', tail='<b>', debug=True),
            crit('badurl', tail='<b>"\'&{0}', qs='<q>', host='h<i>'), crit('badurl', tail='::1<b>/x?y#z'),
            crit('badurl', tail='a]b<b>]c'), crit('badurl', tail='<b>', prime=True), crit('badurl', tail='<b>', via='custom'),
            crit('badurl', tail='<b>', method='HEAD')]
    # long requests (seeded change C20-8: a length guard that echoed the raw url once the escaped url passed 1024
    # characters).  Escaping must hold for every length: markup inside 1-5 kB of padding, in each request part.
    for k in KINDS:
        out.append(page(k, tail='u', qs=long_text(XSS, 1100)))
        out.append(page(k, tail='u', qs=long_text(XSS, 3000, '&', 'around'), accept=J))
    out += [
        page('404', tail='u', qs=long_text(XSS, 2000, 'a', 'before')),
        page('404', tail='u', qs=long_text('"', 1500, "'")), page('404', tail='u', qs=long_text("'", 1500, '{0}')),
        page('404', tail=long_text('<b>', 1200, 'ab/'), qs=''), page('405', tail=long_text(XSS, 2500, 'a', 'around'), qs=''),
        page('404', tail='u', host=long_text(XSS, 1100)), page('404', tail='u', xfh=long_text(ATTR, 1100, '&'), host='h'),
        page('crash', tail='u', qs=long_text(XSS, 5000), msg=long_text('<m>', 2000)),
        page('crash', tail='u', qs=long_text(XSS, 1500), msg=long_text('<m>', 2000, '\n'), debug=True),
        page('crash', tail='u', qs='', msg=long_text('"<m>', 3000, '\x00'), accept=J),
        page('400path', tail=long_text('<b>', 1500, '\xff'), qs=long_text(XSS, 1500)),
        crit('hdr', tail=long_text(XSS, 3000, '&')), crit('errhandler', tail=long_text(XSS, 1500, '<'), debug=True,
                                                      msg=long_text('<m>', 1500)),
        seq([step('404', 'u', long_text(XSS, 1100)), step('404', 'u', long_text(XSS, 1100), accept=J),
             step('404', 'u', long_text(XSS, 900))]),
        prim('escape', long_text(XSS, 3000, '&')), prim('html_escape', long_text(XSS, 3000, "'")),
        prim('repr', long_text("'\"", 3000, '\\')), prim('dumps', long_text('"', 3000, '\U0001F600')),
        prim('loads', '{"k": %s}' % json.dumps(long_text('"', 3000, '\u00e9'))),
    ]
    # the escaped url just below / at / above round sizes
    for n in (1000, 1015, 1023, 1024, 1025, 2048, 4096):
        out.append(page('404', tail='u', qs=long_text('<', n, 'a', 'before')))
    return out


def _junk(rng, pool, n):
    return ''.join(rng.choice(pool) for _ in range(n))


def _gen_tail(rng):
    r = rng.random()
    if r < 0.55:       # unicode path text, sent as UTF-8
        u = _junk(rng, VOCAB + UNI, rng.randrange(0, 7))
        return _wire(u)
    if r < 0.8:        # ascii with control characters
        return _junk(rng, VOCAB + CTRL, rng.randrange(0, 7))
    if r < 0.9:
        return 'plain' + str(rng.randrange(100))
    # valid UTF-8 of a unicode string, a few stray high bytes appended would make it undecodable: keep valid here
    return _wire(_junk(rng, UNI + ['/', '<', '"'], rng.randrange(1, 5)))


def _gen_latin(rng, lo=0, hi=6):
    return _junk(rng, VOCAB + CTRL + HIGH_LATIN, rng.randrange(lo, hi))


FILLERS = ['a', 'ab/', '&', "'", '<', '%41', '{0}', '\xe9', ' ']
LONG_LENGTHS = [1000, 1019, 1023, 1024, 1025, 1030, 1100, 2047, 2048, 2049, 3000, 4096, 5000]


def long_text(markup, n, filler='a', where='after'):
    """markup surrounded by about n characters of filler (length-dependent code paths: truncation, size guards)"""
    pad = (filler * (n // len(filler) + 1))[:n]
    if where == 'before':
        return pad + markup
    if where == 'around':
        return pad[:n // 2] + markup + pad[n // 2:]
    return markup + pad


def _gen_long(rng, c):
    """blow one request part up to 1-5 kB, the markup staying inside"""
    k = rng.choice(['qs', 'qs', 'tail', 'host', 'xfh'])
    markup = rng.choice([XSS, ATTR, '<b>', '"', "'", '&', '{0}', '</tt><script>', c.get(k) or '<i>'])
    filler = rng.choice(FILLERS)
    if k == 'tail':
        filler = rng.choice(['a', 'ab/', '<', "'", '{0}', ' '])       # stays UTF-8, no LF
    n = rng.choice(LONG_LENGTHS) if rng.random() < 0.6 else rng.randrange(900, 5200)
    c[k] = long_text(markup, n, filler, rng.choice(['after', 'before', 'around']))
    return c


def _gen_request(rng, c):
    c['tail'] = _gen_tail(rng)
    c['qs'] = _gen_latin(rng) if rng.random() < 0.8 else ''
    if rng.random() < 0.45:
        c['host'] = rng.choice(['example.com', 'h:8080', '[::1]:80', '']) if rng.random() < 0.3 else _gen_latin(rng, 1, 5)
    if rng.random() < 0.2:
        c['xfh'] = _gen_latin(rng, 0, 5)
    if rng.random() < 0.15:
        c['xfp'] = rng.choice(['https', 'http', '', _gen_latin(rng, 1, 4)])
    if rng.random() < 0.12:
        c['script'] = rng.choice(['/app', 'app/', '/<i>/', '/a"b', "/a'b/", '/{0}', '/' + _gen_latin(rng, 1, 3)])
    if rng.random() < 0.1:
        c['port'] = rng.choice(['8080', '443', '<80>', ''])
    if rng.random() < 0.08:
        c['server_name'] = rng.choice(['srv', '<srv>', 'a"b'])
    if rng.random() < 0.05:
        _gen_long(rng, c)
    r = rng.random()
    if r < 0.3:
        c['accept'] = 'application/json'
    elif r < 0.45:
        c['accept'] = rng.choice(['application/json; q=0.9', 'application/jsonx', 'text/html,application/json', '',
                                  'APPLICATION/JSON', 'text/html', '*/*', 'application/jso', ' application/json',
                                  'application/json<x>'])
    return c


HEAD_OK = {'404', '400path', 'map0', 'crash', 'unhandled', 'type', 'loops'}
DROPPABLE = ['QUERY_STRING', 'SERVER_NAME', 'SERVER_PORT', 'wsgi.url_scheme', 'SCRIPT_NAME']
OKVARS = ['str', 'bytes', 'empty', 'list', 'liststr', 'gen', 'gen_empty', 'file', 'filew', 'closeiter', 'abort_gen', 'json_ct',
          'cookie']


def _gen_app_opts(rng, c, allow_dmap=True):
    """how the application is set up (the same for every request of a sequence)"""
    if rng.random() < 0.2:
        c['via'] = 'custom'
    if rng.random() < 0.2:
        c['prime'] = True
    if rng.random() < 0.3:
        c['debug_via'] = rng.choice(['setup', 'attr'])
    if rng.random() < 0.2:
        c['hooks'] = True
    if rng.random() < 0.12:
        c['xsn_cfg'] = True
    if rng.random() < 0.1:
        c['app_hdr'] = 'HTTP_X_APPNAME'
    k = c.get('kind') or c.get('trigger')
    if allow_dmap and k in ('404', 'errhandler') and rng.random() < 0.2:
        c['dmap'] = rng.choice(['fixed', 'fromhost'])
    if k == 'crash' and rng.random() < 0.1:
        c['badrepr'] = True
    return c


def _gen_req_opts(rng, c, app):
    """unusual but legal environ values of one request"""
    k = c.get('kind') or c.get('trigger')
    if rng.random() < 0.1:
        c['drop'] = sorted(rng.sample(DROPPABLE, rng.randrange(1, 4)))
    if (k in HEAD_OK or k in CRIT) and rng.random() < 0.08:
        c['method'] = 'HEAD'
    if app.get('xsn_cfg') and rng.random() < 0.8:
        c['xsn'] = rng.choice(['/app', 'a/b/', '/<i>', '/a"b', "/'", '/' + _gen_latin(rng, 1, 3)])
        if rng.random() < 0.7:
            c.pop('script', None)
    if app.get('app_hdr') and rng.random() < 0.6:
        c['xapp'] = rng.choice(['/', '/zz', '/zz/p', '<b>', '/' + _gen_latin(rng, 0, 3), 'xxxxxxxxxxxxxxxxxxxxxxxxxxxx'])
    return c


def _gen_msg(rng, json_mode):
    pool = VOCAB + CTRL + UNI + HIGH_LATIN
    if json_mode:
        pool = pool + ['\ud800', '\udc00', '\U0010FFFF', '\U00010000']
    return _junk(rng, pool, rng.randrange(0, 8))


def _gen_text(rng, hi=12):
    r = rng.random()
    pool = VOCAB + CTRL + UNI + HIGH_LATIN + ['\ud800', '\udc00', '\udfff', '\udbff', '\uffff', '\U00010000', '\x08', '\x0c']
    if r < 0.8:
        return _junk(rng, pool, rng.randrange(0, hi))
    return ''.join(chr(rng.choice([rng.randrange(0, 0x80), rng.randrange(0x80, 0x800), rng.randrange(0x800, 0x10000),
                                   rng.randrange(0x10000, 0x110000)])) for _ in range(rng.randrange(0, hi)))


JS_ALPHA = ['{', '}', '"', ':', ',', ' ', '\\', 'u', 'n', 'l', 'd', '8', '0', 'c', 'a', 'F', '\n', '\t', '\x00', '\x7f',
            '\xe9', '\ud83d', '/', 'b', 'f', 'r', 't', '[', ']', '1', "'"]


def _gen_json_text(rng):
    n = rng.randrange(0, 4)
    d = []
    for _ in range(n):
        k = _gen_text(rng, 4)
        v = None if rng.random() < 0.25 else _gen_text(rng, 6)
        d.append((k, v))
    ws = lambda: ''.join(rng.choice([' ', '\t', '\n', '\r']) for _ in range(rng.choice([0, 0, 0, 1, 2])))  # noqa: E731
    ens = rng.random() < 0.7
    parts = []
    for k, v in d:
        parts.append(ws() + json.dumps(k, ensure_ascii=ens) + ws() + ':' + ws() + json.dumps(v, ensure_ascii=ens) + ws())
    text = ws() + '{' + (','.join(parts) if parts else ws()) + '}' + ws()
    r = rng.random()
    if r < 0.45:
        return text
    t = list(text)
    for _ in range(rng.choice([1, 1, 2, 3])):
        op = rng.random()
        if not t:
            break
        i = rng.randrange(len(t))
        if op < 0.35:
            del t[i]
        elif op < 0.7:
            t[i] = rng.choice(JS_ALPHA)
        elif op < 0.9:
            t.insert(i, rng.choice(JS_ALPHA))
        else:
            t = t[:i]
    return ''.join(t)


def _gen_seq(rng):
    """2-3 requests on one application: mostly the same URL with the Accept header changing, sometimes other
    query strings / hosts / kinds"""
    n = rng.choice([2, 2, 3])
    base = _gen_request(rng, dict(kind=rng.choice(SEQ_KINDS)))
    steps = []
    for i in range(n):
        s = dict(base)
        r = rng.random()
        if r < 0.55:
            pass                                      # same URL
        elif r < 0.75:
            s['qs'] = _gen_latin(rng)
        elif r < 0.85:
            s['host'] = _gen_latin(rng, 1, 4)
        else:
            s = _gen_request(rng, dict(kind=rng.choice(SEQ_KINDS)))
        if rng.random() < 0.25:
            s['kind'] = rng.choice(SEQ_KINDS)
        s.pop('accept', None)
        a = rng.random()
        if a < 0.45:
            s['accept'] = 'application/json'
        elif a < 0.6:
            s['accept'] = rng.choice(['text/html', '*/*', 'application/json; q=0.9', '', 'application/jsonx'])
        if s['kind'] == '400path':
            s['tail'] = s['tail'] + rng.choice(['', '\xff', '\x80<'])
        steps.append(_fit(s))
    # make sure formats alternate at least once in most sequences
    if rng.random() < 0.7:
        j = rng.randrange(n)
        steps[j].pop('accept', None)
        steps[(j + 1) % n]['accept'] = 'application/json'
    c = dict(t='seq', steps=steps, debug=rng.random() < 0.15)
    if rng.random() < 0.7:
        c['msg'] = _gen_msg(rng, False)
    c['tyname'] = rng.choice(TYPES)
    _gen_app_opts(rng, c, allow_dmap=False)
    c.pop('badrepr', None)
    for s in steps:
        _gen_req_opts(rng, s, c)
        if rng.random() < 0.15:
            s['debug'] = rng.random() < 0.5          # the flag is switched on the live application
    if rng.random() < 0.45:
        # ordinary successful traffic between the error requests
        for _ in range(rng.choice([1, 1, 2])):
            ok = _fit(dict(kind=rng.choice(['ok', 'ok', 'ok', 'sub404'] if c.get('hooks') else ['ok']),
                           tail=_gen_tail(rng), qs=_gen_latin(rng), okvar=rng.choice(OKVARS)))
            if rng.random() < 0.4:
                ok['accept'] = 'application/json'
            steps.insert(rng.randrange(len(steps) + 1), ok)
    if rng.random() < 0.3:
        c['napps'] = 2
        for s in steps:
            s['app'] = rng.randrange(2)
    return c


def gen(rng, n):
    for _ in range(n):
        r = rng.random()
        if r < 0.62:
            kind = rng.choice(KINDS)
            c = _gen_request(rng, dict(t='page', kind=kind, debug=rng.random() < 0.25))
            if kind == '400path':
                # malformed stream: undecodable bytes anywhere in the tail as well
                c['tail'] = c['tail'] + _junk(rng, HIGH_LATIN + VOCAB, rng.randrange(0, 4))
            if kind in ('crash', 'unhandled'):
                jm = (c.get('accept') or '').startswith('application/json')
                if rng.random() < 0.75:
                    c['msg'] = _gen_msg(rng, jm)
                else:
                    c['msg'] = None     # the handler raises with the matched path text
            if kind == 'type':
                c['tyname'] = rng.choice(TYPES)
            _gen_app_opts(rng, c)
            _gen_req_opts(rng, c, c)
            yield _fit(c)
        elif r < 0.74:
            tr = rng.choice(CRIT)
            c = _gen_request(rng, dict(t='crit', trigger=tr, debug=rng.random() < 0.35))
            if tr in ('errhandler', 'errhandler400') and rng.random() < 0.7:
                c['msg'] = _gen_msg(rng, False)
            if tr == 'errhandler400':
                c['tail'] = c['tail'] + _junk(rng, HIGH_LATIN + VOCAB, rng.randrange(0, 4))
            _gen_app_opts(rng, c)
            _gen_req_opts(rng, c, c)
            yield _fit(c)
        elif r < 0.84:
            yield _gen_seq(rng)
        elif r < 0.93:
            fn = rng.choice(['escape', 'html_escape', 'repr', 'repr', 'dumps', 'dumps'])
            yield prim(fn, _gen_text(rng))
        else:
            yield prim('loads', _gen_json_text(rng))


def thorough():
    """every kind/trigger x every single vocabulary item in each request position (bounded-exhaustive over the vocabulary)"""
    items = VOCAB + CTRL + HIGH_LATIN + COMPAT + COMPAT_MORE
    # lengths: every escaped-url length around 1 kB, and a coarse sweep up to 8 kB, markup first / last
    for n in list(range(960, 1060)) + list(range(1100, 8200, 355)):
        yield page('404', tail='u', qs=long_text('<b>"', n, 'a', 'before'))
        yield page('404', tail='u', qs=long_text('<b>"', n, '&', 'after'))
    for k in KINDS:
        for n in (1024, 2048, 4096, 8192):
            for part in ('qs', 'host', 'tail'):
                yield page(k, **dict(dict(tail='u', qs=''), **{part: long_text('<b>', n, 'a', 'around')}))
    for k in KINDS:
        for it in items:
            for acc in (None, 'application/json'):
                yield page(k, tail=it, qs='', accept=acc)
                yield page(k, tail='x', qs=it, accept=acc)
                yield page(k, tail='x', qs='', host='h' + it, accept=acc)
    for tr in CRIT:
        for it in items:
            yield crit(tr, tail=it)
            yield crit(tr, tail=_wire(it))
    J = 'application/json'
    for k in SEQ_KINDS:
        for k2 in SEQ_KINDS:
            yield seq([step(k, 'u', 'q=<1>'), step(k2, 'u', 'q=<1>', accept=J), step(k, 'u', 'q=<1>')], msg='m')
        for it in items:
            yield seq([step(k, 'u', it), step(k, 'u', it, accept=J)], msg='m')
            yield seq([step(k, 'u', it, accept=J), step(k, 'u', it)], msg='m')
    for it in items + UNI + ['\ud800', '\udc00']:
        for fn in ('escape', 'html_escape', 'repr', 'dumps'):
            yield prim(fn, it)
            yield prim(fn, 'a' + it + it + 'b')


SPECIAL = set('<>&"\'{}\\')


def _has_special(s):
    return any(ch in SPECIAL or ord(ch) < 32 or ord(ch) >= 127 for ch in s)


def nontrivial(case, obs):
    if case['t'] == 'prim':
        return _has_special(case['s'])
    if case['t'] == 'seq':
        # at least two requests, both formats asked for, request parts with special characters
        fmts = {(s.get('accept') or '').startswith('application/json') for s in case['steps']}
        return len(case['steps']) >= 2 and len(fmts) == 2 and any(
            _has_special(p) for s in case['steps'] for p in _request_parts(s))
    if 'status' not in obs or obs['status'][:1] not in '45':
        return False
    return any(_has_special(p) for p in _request_parts(case))


def key(case):
    if case['t'] == 'prim':
        return ('prim', case['fn'], case['s'])
    if case['t'] == 'seq':
        return ('seq', bool(case.get('debug')), case.get('msg'),
                tuple((s['kind'], (s.get('accept') or ''), tuple(_request_parts(s))) for s in case['steps']))
    fmt = 'json' if (case.get('accept') or '').startswith('application/json') else 'html'
    return (case['t'], case.get('kind') or case.get('trigger'), fmt, bool(case.get('debug')),
            tuple(_request_parts(case)), case.get('msg'))


def classify(case, obs):
    if case['t'] == 'prim':
        if case['fn'] == 'loads':
            return 'prim/loads/%s' % ('bad' if obs.get('parsed') == 'bad' else 'ok')
        return 'prim/%s' % case['fn']
    if case['t'] == 'seq':
        urls = len({(s['kind'], s['tail'], s.get('qs'), s.get('host')) for s in case['steps']})
        fm = ''.join('J' if str(o.get('ctype', '')).startswith('application/json') else 'H' for o in obs.get('steps', []))
        return 'seq/%s/%s/%s' % (fm, 'same-url' if urls == 1 else 'urls-differ', 'debug' if case.get('debug') else 'nodebug')
    fmt = 'json' if str(obs.get('ctype', '')).startswith('application/json') else 'html'
    return '%s/%s/%s/%s/%s' % (case['t'], case.get('kind') or case.get('trigger'), fmt,
                               'debug' if case.get('debug') else 'nodebug', str(obs.get('status', '?'))[:3])


def _chunks(s):
    """candidates that drop big pieces of a long string (halves, quarters, ... down to 16 characters)"""
    n = len(s)
    size = n // 2
    while size >= 16:
        for i in range(0, n, size):
            yield s[:i] + s[i + size:]
        size //= 2


def shrink(case):
    if case['t'] == 'prim':
        s = case['s']
        if len(s) > 64:
            for c in _chunks(s):
                yield dict(case, s=c)
            return
        for i in range(len(s)):
            yield dict(case, s=s[:i] + s[i + 1:])
        return
    if case['t'] == 'seq':
        st = case['steps']
        if len(st) > 1:
            for i in range(len(st)):
                yield dict(case, steps=st[:i] + st[i + 1:])
        for i in range(len(st)):
            for k in ('xfh', 'xfp', 'script', 'host', 'port', 'server_name'):
                if st[i].get(k) is not None:
                    yield dict(case, steps=[{kk: v for kk, v in s.items() if kk != k} for s in st])
            for k in ('tail', 'qs'):
                if st[i].get(k):
                    # shorten the same field in every request that shares its value (keeps "same URL")
                    v = st[i][k]
                    for j in range(len(v)):
                        nv = v[:j] + v[j + 1:]
                        if k == 'tail' and st[i]['kind'] not in UNDECODABLE and not _decodable(nv):
                            continue
                        yield dict(case, steps=[dict(s, **{k: nv}) if s.get(k) == v else s for s in st])
        for k in ('msg', 'tyname'):
            if k in case:
                yield {kk: v for kk, v in case.items() if kk != k}
        if case.get('debug'):
            yield dict(case, debug=False)
        return
    for k in ('xfh', 'xfp', 'script', 'host', 'port', 'server_name', 'accept', 'msg'):
        if case.get(k) is not None:
            c = dict(case)
            del c[k]
            yield c
    for k in ('tail', 'qs', 'host', 'xfh', 'msg'):
        s = case.get(k)
        if s and len(s) > 64:
            for cs in _chunks(s):
                if k == 'tail' and (case.get('kind') or case.get('trigger')) not in UNDECODABLE and not _decodable(cs):
                    continue
                yield dict(case, **{k: cs})
            continue
        if s:
            for i in range(len(s)):
                c = dict(case, **{k: s[:i] + s[i + 1:]})
                if k == 'tail' and (case.get('kind') or case.get('trigger')) not in UNDECODABLE and not _decodable(c['tail']):
                    continue        # would turn the request into an undecodable-path 400
                yield c
    if case.get('debug'):
        yield dict(case, debug=False)


def _pred_badrepr_json(case, what, m):
    """F38 (fixed by 1531cee; the case stays in the corpus): a handler failing with an exception whose repr() raises, JSON requested"""
    return (case.get('t') == 'page' and bool(case.get('badrepr')) and case.get('kind') == 'crash'
            and (case.get('accept') or '').startswith('application/json'))


PREDICATES = {'badrepr_json': _pred_badrepr_json}

MANIFEST = dict(
    text=('Proof: theorems in coq/props/C20.v about the model coq/model/ErrPage.v (error.html taken from the source '
          'by the translator) state for ALL url strings and every Unicode printability table that the HTML error '
          'page is pre ++ repr(html.escape(url)) ++ post with pre/post independent of the url and the middle free of '
          '< > and of any & that does not begin a character reference; that with debug off neither exception nor '
          'traceback is part of the page; that the last-resort page escapes PATH_INFO; and that the JSON body is '
          'accepted by a JSON reader and reads back to the same strings. The model is tied to /repo on every run by a '
          'differential correspondence through Ombott.__call__ and an independent oracle.'),
    note=('Trusted: Coq kernel + vm_compute; extraction (ExtrOcamlBasic only); the Python harness; the Unicode '
          'printability table is a section variable. Modelled not verified: html.escape, repr(str), json.dumps, '
          'str.format; urlquote/urljoin/geturl are outside the model (theorems quantify over every url string).'),
    technique='Coq proof (character-wise closed pieces, template decomposition, parser round trip) + model/implementation correspondence',
    design_ref='DESIGN.md section 4, C20',
)
