"""Dev-only line coverage of the anchored code for the harnesses of cluster wsgiD1
(C03, C03a, C09):  VERIF_COVERAGE=1 ./check C03 --no-coq

Uses sys.monitoring (CPython 3.12): LINE events are enabled only for the code
objects of the anchored functions and disabled again after the first hit, so
the slowdown is negligible.  Forked children (C09) hand their hits back with
`export()` / `merge()`.  At exit the parent prints the unreached lines and
writes /tmp/verif_coverage_<ID>.json.  Nothing here is used by a theorem.
"""
import atexit
import json
import os
import sys

ENABLED = bool(os.environ.get('VERIF_COVERAGE'))
TOOL = 3          # sys.monitoring.COVERAGE_ID would clash with coverage.py; any free id 0..5 will do

# file (relative to the ombott package) -> qualified names; a class name selects all of its methods
ANCHORED = {
    'ombott.py': ['_closeiter', 'Ombott.setup', 'Ombott.to_route', 'Ombott.add_hook', 'Ombott.on', 'Ombott.remove_hook',
                  'Ombott.emit', 'Ombott.error', 'Ombott.default_error_handler', 'Ombott.handler', 'Ombott._handle',
                  'Ombott._cast', 'Ombott.wsgi', 'Ombott.__call__', 'Ombott.__init__', 'abort', 'redirect'],
    'response.py': ['BaseResponse', 'HTTPResponse', 'HTTPError'],
    'common_helpers.py': ['WSGIFileWrapper', 'HeaderDict', '_hval', 'html_escape', 'tob'],
    'error_render.py': ['render'],
    'request_pkg/request.py': ['BaseRequest._raise', 'BaseRequest.__init__'],
}

_hits = set()        # (file, line)
_lines = {}          # file -> {line: qualified function name}
_started = False
_pid = os.getpid()


def _walk_code(code, out):
    out.append(code)
    for c in code.co_consts:
        if hasattr(c, 'co_code'):
            _walk_code(c, out)


def _functions(mod_file, names):
    """code objects of the selected functions, found by compiling the source (no import side effects)"""
    with open(mod_file) as f:
        src = f.read()
    top = compile(src, mod_file, 'exec')
    sel = []

    def visit(code, prefix):
        for c in code.co_consts:
            if not hasattr(c, 'co_code'):
                continue
            q = (prefix + '.' if prefix else '') + c.co_name
            is_function = bool(c.co_flags & 0x1)          # CO_OPTIMIZED: not a class body
            if not is_function:
                visit(c, q)
            elif any(q == n or q.startswith(n + '.') for n in names):
                sel.append((q, c))
    visit(top, '')
    return sel


def start(repo):
    """enable LINE events on the anchored functions of the ombott package under repo"""
    global _started
    if not ENABLED or _started:
        return
    _started = True
    import importlib
    pkg = os.path.join(repo, 'ombott')
    wanted = {}
    for rel, names in ANCHORED.items():
        path = os.path.join(pkg, rel)
        _lines[rel] = {}
        for q, code in _functions(path, names):
            allc = []
            _walk_code(code, allc)
            for c in allc:
                is_def = not c.co_name.startswith('<')
                for _s, _e, ln in c.co_lines():
                    if ln is None or (is_def and ln == c.co_firstlineno):
                        continue
                    _lines[rel].setdefault(ln, q)
            wanted[(os.path.realpath(path), code.co_name, code.co_firstlineno)] = rel
    mon = sys.monitoring
    try:
        mon.use_tool_id(TOOL, 'verif-wsgiD1')
    except ValueError:
        pass

    def on_line(code, line):
        rel = _relname(code.co_filename, pkg)
        if rel is not None:
            _hits.add((rel, line))
        return mon.DISABLE
    mon.register_callback(TOOL, mon.events.LINE, on_line)
    # the real code objects: import the modules and walk their functions
    import ombott  # noqa
    import gc
    seen = set()
    for obj in gc.get_objects():
        code = getattr(obj, '__code__', None)
        if code is None or id(code) in seen:
            continue
        seen.add(id(code))
        key = (os.path.realpath(code.co_filename), code.co_name, code.co_firstlineno)
        if key in wanted:
            allc = []
            _walk_code(code, allc)
            for c in allc:
                mon.set_local_events(TOOL, c, mon.events.LINE)
    atexit.register(report)


def _relname(filename, pkg):
    fn = os.path.realpath(filename)
    p = os.path.realpath(pkg) + os.sep
    if fn.startswith(p):
        rel = fn[len(p):]
        return rel if rel in _lines else None
    return None


def export():
    return sorted(_hits)


def merge(hits):
    for f, ln in hits or []:
        _hits.add((f, ln))


def report():
    if os.getpid() != _pid or not _started:
        return
    total = sum(len(v) for v in _lines.values())
    reached = sum(1 for f, v in _lines.items() for ln in v if (f, ln) in _hits)
    missing = {}
    for f, v in _lines.items():
        for ln, q in sorted(v.items()):
            if (f, ln) not in _hits:
                missing.setdefault('%s:%s' % (f, q), []).append(ln)
    ident = os.environ.get('VERIF_COVERAGE_ID', 'run')
    out = dict(reached=reached, total=total, missing=missing)
    with open('/tmp/verif_coverage_%s.json' % ident, 'w') as fh:
        json.dump(out, fh, indent=1, sort_keys=True)
    sys.stderr.write('coverage of the anchored functions: %d / %d lines\n' % (reached, total))
    for k, v in sorted(missing.items()):
        sys.stderr.write('  unreached %s: %s\n' % (k, v))
