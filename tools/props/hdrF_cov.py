"""Dev-only line coverage of the anchored functions (AUDIT_BRIEF.md item 1), used by props/C14.py and C15.py:

    VERIF_COVERAGE=1 ./check C14 --no-coq      (summary on stderr, details in /tmp/verif_cov_C14.json)

`wrap(pid, run_impl, targets)` returns run_impl instrumented with sys.settrace; targets =
{repo-relative file: [qualified-name prefixes]} (e.g. 'HeaderDict.', '_hval', 'BaseResponse.headerlist').
The executable lines of a function are taken from its code object (co_lines), nested functions,
lambdas and comprehensions included."""
import atexit
import json
import os
import sys


def _code_lines(code, qual, want, out):
    name = code.co_name if qual is None else (qual + '.' + code.co_name if qual else code.co_name)
    for c in code.co_consts:
        if hasattr(c, 'co_code'):
            _code_lines(c, '' if qual is None else name, want, out)
    if qual is None:
        return
    clean = name.replace('<locals>.', '')
    if any(clean == w or clean.startswith(w) for w in want):
        lines = {ln for _, _, ln in code.co_lines() if ln is not None and ln != code.co_firstlineno}
        out.setdefault(clean, set()).update(lines)


def executable_lines(path, want):
    with open(path) as f:
        src = f.read()
    out = {}
    _code_lines(compile(src, path, 'exec'), None, want, out)
    return out


class Cov:
    def __init__(self, pid, targets):
        repo = os.environ.get('VERIF_REPO', '/repo')
        self.pid = pid
        self.funcs = {}                      # abs path -> {qualname: set(lines)}
        for rel, want in targets.items():
            p = os.path.realpath(os.path.join(repo, rel))
            self.funcs[p] = executable_lines(p, want)
        self.wanted = {p: set().union(*fs.values()) if fs else set() for p, fs in self.funcs.items()}
        self.hit = {p: set() for p in self.funcs}
        atexit.register(self.report)

    def _local(self, frame, event, arg):
        if event == 'line':
            self.hit[frame.f_code.co_filename].add(frame.f_lineno)
        return self._local

    def _global(self, frame, event, arg):
        fn = frame.f_code.co_filename
        if fn in self.hit:
            return self._local
        return None

    def run(self, f, case):
        old = sys.gettrace()
        sys.settrace(self._global)
        try:
            return f(case)
        finally:
            sys.settrace(old)

    def report(self):
        total = reached = 0
        missing = {}
        for p, fs in self.funcs.items():
            for q, lines in sorted(fs.items()):
                total += len(lines)
                got = lines & self.hit[p]
                reached += len(got)
                if lines - got:
                    missing['%s:%s' % (os.path.basename(p), q)] = sorted(lines - got)
        sys.stderr.write('COVERAGE %s: %d / %d executable lines of the anchored functions reached\n'
                         % (self.pid, reached, total))
        for k, v in sorted(missing.items()):
            sys.stderr.write('   unreached %s: %s\n' % (k, v))
        try:
            with open('/tmp/verif_cov_%s.json' % self.pid, 'w') as f:
                json.dump(dict(reached=reached, total=total, missing=missing), f, indent=1)
        except OSError:
            pass


def wrap(pid, run_impl, targets):
    if os.environ.get('VERIF_COVERAGE') != '1':
        return run_impl
    cov = Cov(pid, targets)
    return lambda case: cov.run(run_impl, case)
