"""C07 — multipart forms and uploads round-trip exactly."""
import io

from props.common import enc_str, Reader, environ

ID = 'C07'
COQ_MODEL = 'model.Fields'
COQ_CORR = 'corr_C07'
N_QUICK = 1500
N_THOROUGH = 8000
RULE = ('cases = corpus + random field lists (0..6 parts, text fields and uploads interleaved, repeated names, '
        'names/file names with ; = space backslash colon and non-ASCII scalars but no double quote and no '
        'str.splitlines break, values/contents drawn from CR LF dash and boundary look-alikes without a full '
        'delimiter), RFC 2046 boundaries incl. "-", "--", self-overlapping ones, encoded by the harness as a '
        'browser does, posted through Ombott.__call__ with Content-Length or chunked framing and '
        'max_memfile_size at/below/above the in-memory budget and the body size; a handler reads '
        'Request.POST/forms/files (uploads: raw_filename, content_type.value, file.read(k)+file.read()). '
        'non-trivial = at least two parts and (a repeated name, or an upload and a text field, or a name with ; or '
        'non-ASCII); distinct by (names, kinds, sizes, boundary, mem class, framing)')
TRUSTED = ['modelled, not verified: str.splitlines / str.strip / bytes.decode as re-implemented in coq/model/Fields.v and '
           'coq/lib/Utf8.v; the option regex FieldStorage._patt as the hand-derived scanner of Fields.v (text pinned '
           'against Gen.field_opt_patt_src; derivation validated against `re` on all 488 281 strings of length <= 8 '
           'over {a = ; " space}); str.lower() beyond ASCII (exact for the lookups name/filename); the temporary '
           'file behind a spilled body',
           'the streaming parser is replaced by the one-piece scanner MultipartRef.ref (C06 relates the two)']
ASSUMPTIONS = ['max_memfile_size >= 1, and >= 5 under chunked framing (a chunk-size line must fit the buffer: C05)',
               'field and file names contain no double quote and no str.splitlines line break',
               'content types contain no ; = line break or surrounding white space',
               'the delimiter CRLF--boundary does not occur in any value or file content',
               'header blocks plus text values fit max_memfile_size (otherwise 413 is the specified answer, C13)',
               'file name non-empty (an upload with an empty file name is delivered as a form value None: finding F10)']

LINEBREAKS = {10, 11, 12, 13, 28, 29, 30, 133, 0x2028, 0x2029}
BCHARS = "0123456789abcdefghijklmnopqrstuvwxyzABCDEFGHIJKLMNOPQRSTUVWXYZ'()+_,-./:=?"


def cps(s):
    return [ord(c) for c in s]


def u8(points):
    return ''.join(chr(c) for c in points).encode('utf-8')


def T(name, value):
    return dict(kind='text', name=cps(name), value=cps(value))


def F(name, filename, ctype, content, clen=None):
    """clen: text of a Content-Length header inside the part (None: no such header)"""
    d = dict(kind='file', name=cps(name), filename=cps(filename), ctype=cps(ctype), content=list(content))
    if clen is not None:
        d['clen'] = cps(str(clen))
    return d


def case(boundary, fields, mem=102400, k=0, framing='cl', first='POST', chunks=None, blk=3, with_body=False,
         ops=None, sched=None, app='own', cfg_via='ctor', copy=False, second=None, api=False, cl_with_te=None,
         cstyle=0):
    """blk: block size of the interleaved pass (every upload is read blk bytes at a time, round robin);
    with_body: Request.body is also read from between the rounds;
    ops: script of file operations run on every upload: ['r', n] read(n) (n < 0: read()), ['s', pos, whence], ['t'];
    sched: short-read schedule of wsgi.input; app: 'own' (fresh Ombott) | 'shared' (one module-level application
    serving many cases); cfg_via: how max_memfile_size is configured: 'ctor' | 'setup' | 'default' (needs mem=102400);
    copy: also read the form through Request.copy(); second: another field list posted through the SAME request
    object by replacing wsgi.input (cache invalidation); api: exercise the rest of the FileUpload / BytesIOProxy API;
    cl_with_te: under chunked framing, a Content-Length header sent NEXT to Transfer-Encoding: chunked — 'wire' (length of
    the chunk-framed stream), 'body' (length of the payload), 'short', 'long', 'zero'; chunked framing wins
    (C05_chunked_overrides_content_length), so the form must round-trip all the same;
    cstyle: spelling of the chunk-size lines under chunked framing (size_line: upper / mixed case hex, leading zeros,
    chunk extensions, trailer fields)"""
    return dict(boundary=cps(boundary), fields=fields, mem=mem, k=k, framing=framing, first=first,
                chunks=chunks or [7], blk=blk, with_body=with_body, ops=ops or [], sched=sched or [], app=app,
                cfg_via=cfg_via, copy=copy, second=second, api=api, cl_with_te=cl_with_te, cstyle=cstyle)


# ---------------------------------------------------------------- dev-only line coverage of the anchored code
# VERIF_COVERAGE=1 ./check Cxx --no-coq   writes evidence/dev/coverage_Cxx.json: executable lines of the anchored
# functions reached / not reached by the cases of the run (AUDIT_BRIEF.md, step 1).
COV_TARGETS = {
    'ombott/request_pkg/multipart.py': ['FieldStorage', 'BytesIOProxy', 'Header'],
    'ombott/request_pkg/body_mixin.py': ['BodyMixin.POST', 'BodyMixin.forms', 'BodyMixin.files'],
    'ombott/request_pkg/helpers.py': ['FileUpload'],
}


class Coverage:
    def __init__(self, pid, targets):
        import atexit
        import os
        import sys
        self.pid, self.hits, self.want = pid, set(), {}
        self.repo = os.environ.get('VERIF_REPO', '/repo')
        for rel, names in targets.items():
            path = os.path.join(self.repo, rel)
            src = open(path).read()
            top = compile(src, path, 'exec')
            lines = {}

            def walk(code, qual):
                for c in code.co_consts:
                    if hasattr(c, 'co_code'):
                        q = (qual + '.' if qual else '') + c.co_name
                        if any(q == n or q.startswith(n + '.') for n in names):
                            for _, _, ln in c.co_lines():
                                if ln is not None and ln != c.co_firstlineno:
                                    lines.setdefault(ln, q)
                        walk(c, q)
            walk(top, '')
            self.want[path] = lines
        self.files = set(self.want)
        atexit.register(self.report)
        self._sys = sys

    def tracer(self, frame, event, arg):
        if frame.f_code.co_filename not in self.files:
            return None
        fn = frame.f_code.co_filename

        def local(frame, event, arg):
            if event == 'line':
                self.hits.add((fn, frame.f_lineno))
            return local
        self.hits.add((fn, frame.f_lineno))
        return local

    def run(self, f, *a):
        old = self._sys.gettrace()
        self._sys.settrace(self.tracer)
        try:
            return f(*a)
        finally:
            self._sys.settrace(old)

    def report(self):
        import json
        import os
        out, tot, hit = {}, 0, 0
        for path, lines in self.want.items():
            src = open(path).read().split('\n')
            miss = []
            for ln, q in sorted(lines.items()):
                tot += 1
                if (path, ln) in self.hits:
                    hit += 1
                else:
                    miss.append('%d %s: %s' % (ln, q, src[ln - 1].strip()))
            out[os.path.relpath(path, self.repo)] = miss
        root = os.path.normpath(os.path.join(os.path.dirname(os.path.abspath(__file__)), '..', '..'))
        os.makedirs(os.path.join(root, 'evidence', 'dev'), exist_ok=True)
        with open(os.path.join(root, 'evidence', 'dev', 'coverage_%s.json' % self.pid), 'w') as f:
            json.dump(dict(property=self.pid, reached=hit, total=tot, unreached=out), f, indent=1)
        print('coverage %s: %d/%d executable lines of the anchored functions reached' % (self.pid, hit, tot),
              file=self._sys.stderr)


_COV = None


def covered(pid, targets, f, *a):
    import os
    global _COV
    if os.environ.get('VERIF_COVERAGE') != '1':
        return f(*a)
    if _COV is None or _COV.pid != pid:
        _COV = Coverage(pid, targets)
    return _COV.run(f, *a)


# ---------------------------------------------------------------- hang detection (shared by C07 and C12)
# A request of these harnesses takes milliseconds.  The alarm raises a BaseException, so that neither the framework's
# catch-all (`except Exception`) nor MultipartMarkup.parse (`except Exception: self.error = exc`) can swallow it and
# turn a hang into an ordinary 400/500.  After HANG_K hangs in one run the limit drops to HANG_FAST, so a tree that
# hangs on a whole family of inputs costs seconds, not minutes (shrinking included).
HANG_LIMIT = 1.5
HANG_FAST = 0.1
HANG_K = 3
_HANGS = {'n': 0}


class Hang(BaseException):
    pass


def _on_alarm(signum, frame):
    raise Hang()


def call_guarded(f):
    """run f() under the per-request alarm; returns (True, result) or (False, None) when it did not terminate"""
    import signal
    import threading
    if threading.current_thread() is not threading.main_thread():
        # served on a worker thread (tools/check.py does that for every 4th case): signals belong to the main thread
        # and a thread cannot be killed, so a Python-level endless loop is ended from inside by a trace function with
        # a deadline (a C-level one — a regex backtracking for ever — is handled by running that case family in a
        # child process, see C12._in_child)
        import sys
        import time
        limit = HANG_FAST * 4 if _HANGS['n'] >= HANG_K else HANG_LIMIT * 2
        deadline = time.monotonic() + limit
        ticks = [0]

        def tracer(frame, event, arg):
            ticks[0] += 1
            if ticks[0] & 0xff == 0 and time.monotonic() > deadline:
                raise Hang()
            return tracer
        sys.settrace(tracer)
        try:
            return True, f()
        except Hang:
            _HANGS['n'] += 1
            return False, None
        finally:
            sys.settrace(None)
    limit = HANG_FAST if _HANGS['n'] >= HANG_K else HANG_LIMIT
    old = signal.signal(signal.SIGALRM, _on_alarm)
    try:                                    # the outer try: the alarm may fire while the inner handlers are running
        signal.setitimer(signal.ITIMER_REAL, limit)
        try:
            return True, f()
        except Hang:
            _HANGS['n'] += 1
            return False, None
        finally:
            signal.setitimer(signal.ITIMER_REAL, 0)
    except Hang:
        _HANGS['n'] += 1
        return False, None
    finally:
        signal.signal(signal.SIGALRM, old)


def hang_limit():
    return HANG_FAST if _HANGS['n'] > HANG_K else HANG_LIMIT


from props.common import FragStream  # noqa: E402


class QuietStream(FragStream):
    """FragStream without the request log: an implementation that spins on read() must not eat the memory of the check"""

    def read(self, n=-1):
        if n is None or n < 0:
            n = len(self.data) - self.pos
        k = n
        if self.sched:
            k = min(n, self.sched.pop(0) + 1)
        part = self.data[self.pos:self.pos + k]
        self.pos += len(part)
        return part


# ---------------------------------------------------------------- the browser-side encoder
def header_block(f):
    h = b'Content-Disposition: form-data; name="' + u8(f['name']) + b'"'
    if f['kind'] == 'file':
        h += b'; filename="' + u8(f['filename']) + b'"\r\nContent-Type: ' + u8(f['ctype'])
        if f.get('clen') is not None:
            h += b'\r\nContent-Length: ' + u8(f['clen'])
    return h


def part_data(f):
    return u8(f['value']) if f['kind'] == 'text' else bytes(f['content'])


def encode_form(boundary, fields):
    b = bytes(boundary)
    out = []
    for f in fields:
        out.append(b'--' + b + b'\r\n' + header_block(f) + b'\r\n\r\n' + part_data(f) + b'\r\n')
    out.append(b'--' + b + b'--\r\n')
    return b''.join(out)


def budget(fields):
    return sum(len(header_block(f)) + (len(part_data(f)) if f['kind'] == 'text' else 0) for f in fields)


# spellings of a chunk-size line (RFC 9112 7.1: 1*HEXDIG in either case, any number of leading zeros, chunk
# extensions) and of what follows the last chunk (trailer fields).  Every size line stays below 16 bytes.
CHUNK_STYLES = 8


def size_line(n, style, j):
    h = b'%x' % n
    if style == 1:
        h = h.upper()                                  # what http.client writes
    elif style == 2:
        h = bytes(c - 32 if 97 <= c <= 102 and (i + j) % 2 == 0 else c for i, c in enumerate(h))    # mixed case
    elif style == 3:
        h = b'000' + h
    elif style == 4:
        h = h + b';ext=1'
    elif style == 5:
        h = b'0' + h.upper() + b';a="b"'
    elif style == 6:
        h = h.upper() + b';x'
    elif style == 7:
        h = (h.upper() if j % 2 else b'00' + h)
    return h + b'\r\n'


def chunked(body, sizes, style=0):
    out, i, j = [], 0, 0
    while i < len(body):
        n = max(1, sizes[j % len(sizes)])
        j += 1
        piece = body[i:i + n]
        out.append(size_line(len(piece), style, j) + piece + b'\r\n')
        i += len(piece)
    last = {0: b'0\r\n', 3: b'000\r\n', 4: b'0;ext=1\r\n', 5: b'00;a="b"\r\n'}.get(style, b'0\r\n')
    trailer = b'X-Trailer: v\r\n' if style in (5, 6) else b''
    out.append(last + trailer + b'\r\n')
    return b''.join(out)


WS = {9, 10, 11, 12, 13, 28, 29, 30, 31, 32, 133, 160}


def valid(case):
    """the guard of the property: legal boundary, names free of double quotes and line
    breaks, plain content types, no delimiter inside a value or a file content"""
    b = case['boundary']
    if case['mem'] < 1 or (case['framing'] == 'chunked' and case['mem'] < (16 if case.get('cstyle') else 5)):
        return False         # _iter_chunked needs a buffer at least as long as a chunk-size line (C05)
    if not b or any(chr(c) not in BCHARS + ' ' for c in b) or b[-1] == 32 or len(b) > 70:
        return False         # RFC 2046: 1..70 bchars, not ending in a space
    tok = b'\r\n--' + bytes(b)
    if case.get('cfg_via') == 'default' and case['mem'] != 102400:
        return False
    if case.get('second') is not None and budget(case['second']) > case['mem']:
        return False         # the second form must fit the in-memory budget as well
    for f in case['fields'] + (case.get('second') or []):
        for nm in (f['name'], f.get('filename', [])):
            if any(c == 34 or c in LINEBREAKS or 0xD800 <= c <= 0xDFFF or c > 0x10FFFF for c in nm):
                return False
        if f['kind'] == 'file':
            ct = f['ctype']
            if any(c in (59, 61, 34) or c in LINEBREAKS or c > 0x10FFFF or 0xD800 <= c <= 0xDFFF for c in ct):
                return False
            if ct and (ct[0] in WS or ct[-1] in WS or ct[0] > 127 or ct[-1] > 127):
                return False
        elif any(0xD800 <= c <= 0xDFFF or c > 0x10FFFF for c in f['value']):
            return False
        d = part_data(f)
        if (d + tok).find(tok) != len(d):
            return False
    return True


# ---------------------------------------------------------------- cases
def corpus():
    big = bytes(range(256)) * 3
    return [
        case('XyZ', []),
        case('XyZ', [T('a', 'v')]),
        # F8 witnesses: separators inside quoted parameters
        case('XyZ', [T('a;b', 'v')]),
        case('XyZ', [F('f', 'na;me.txt', 'text/plain', b'DATA')]),
        case('XyZ', [T('a=b; c', 'v'), F('x=1;y', 'a=b;c.txt', 'application/octet-stream', b'\r\n--XyZ-')]),
        # F9 witnesses: a text field and an upload sharing a name, both orders
        case('XyZ', [F('x', 'f.txt', 'text/plain', b'DATA'), T('x', 'text')]),
        case('XyZ', [T('x', 'text'), F('x', 'f.txt', 'text/plain', b'DATA')], first='files'),
        case('XyZ', [T('x', '1'), F('x', 'f', 'a/b', b'1'), T('x', '2'), F('x', 'g', 'a/b', b'2'), T('x', '3')]),
        # F10 (finding): empty file name
        case('XyZ', [F('x', '', 'text/plain', b'DATA')]),
        # repeated names keep submission order
        case('XyZ', [T('a', '1'), T('b', 'x'), T('a', '2'), T('a', '3')], first='forms'),
        # adversarial content, boundary look-alikes, tiny boundaries
        case('-', [F('f', 'x', 'a/b', b'\r\n--\r\n-\r\n\r\n--'), T('t', '\r\n-')]),
        case('--', [F('f', 'x', 'a/b', b'\r\n---\r\n--\r'), T('t', '')]),
        case('abab', [F('f', 'x', 'a/b', b'\r\n--aba\r\n--abaa\r\n--ab'), T('t', '--abab')]),
        # non-ASCII names and values, backslashes, spaces
        case('XyZ', [T('na\u00efve \u4e2d\u6587', 'caf\u00e9 \U0001f600'), F('\u00e9', 'C:\\dir\\f \u00fc.txt', 'image/png', b'\xff\xfe\x00')]),
        case('XyZ', [T(' lead', ' v '), T('trail ', '\tv'), T('', 'empty name')]),
        case('XyZ', [T('Name', 'upper'), T('name', 'lower'), T('NAME', 'x')]),
        # in-memory budget: exactly at / one below (-> 413) ; file larger than the threshold
        case('XyZ', [T('a', 'v' * 50), F('f', 'x', 'a/b', big)], mem=budget([T('a', 'v' * 50), F('f', 'x', 'a/b', big)])),
        case('XyZ', [T('a', 'v' * 50), F('f', 'x', 'a/b', big)], mem=budget([T('a', 'v' * 50), F('f', 'x', 'a/b', big)]) - 1),
        case('XyZ', [F('f', 'x', 'a/b', big), T('a', 'v')], mem=97, k=5, framing='chunked', chunks=[1, 2, 300]),
        case('XyZ', [F('f', 'x', 'a/b', b'0123456789')], k=3),
        case('XyZ', [F('f', 'x', 'a/b', b'0123456789')], k=10),
        case('XyZ', [F('f', 'x', 'a/b', b'0123456789')], k=11),
        case('XyZ', [F('f', 'x', 'a/b', b'')], k=1),
        case("a'()+_,-./:=?b c", [T('a', 'v')]),
        # several uploads read alternately in blocks (one shared source behind all windows), with and without
        # Request.body being read in between
        case('XyZ', [F('a', 'a.bin', 'a/b', bytes(range(200))), F('b', 'b.bin', 'a/b', bytes(range(255, 55, -1)))], blk=64),
        case('XyZ', [F('a', 'a.bin', 'a/b', b'A' * 150), T('t', 'v'), F('a', 'b.bin', 'a/b', b'B' * 70), F('c', 'c', 'a/b', b'')],
             blk=64, with_body=True, mem=97),
        case('XyZ', [F('a', 'a', 'a/b', b'0123456789'), F('b', 'b', 'a/b', b'abcdefghij')], blk=1, with_body=True),
        case('XyZ', [F('a', 'a', 'a/b', b'0123456789'), F('b', 'b', 'a/b', b'abcdefghij')], blk=0),
        # ---- audit round: the rest of the file API, seek with every whence, scripts of reads
        case('XyZ', [F('a', 'a', 'a/b', b'0123456789')],
             ops=[['s', 3, 0], ['r', 2], ['t'], ['s', -2, 1], ['r', 100], ['s', -4, 2], ['r', -1], ['s', 5, 2], ['t'], ['r', 1],
                  ['s', -7, 0], ['t'], ['r', 0], ['s', 0, 3], ['s', 2, 1], ['t']]),
        case('XyZ', [F('a', 'a', 'a/b', b''), F('b', 'b', 'a/b', b'xyz')], ops=[['s', 1, 1], ['r', 1], ['s', -1, 2], ['r', 5], ['t']]),
        case('XyZ', [F('up', '../../etc/p\u00e4ss wd.txt', 'text/plain', b'DATA'), F('up', '.. .--', 'a/b', b'x'),
                     F('e', '\u4e2d\u6587', 'a/b', b'y'), F('l', 'a' * 300 + '.txt', 'a/b', b'z')], api=True),
        case('XyZ', [F('f', 'f.bin', 'application/octet-stream', b'DATA', clen=4), F('g', 'g', 'a/b', b'', clen='0'),
                     F('h', 'h', 'a/b', b'zz')], api=True),
        # ---- the same request object: through copy(), and a second form after wsgi.input was replaced
        case('XyZ', [T('a', '1'), F('f', 'x', 'a/b', b'one')], copy=True,
             second=[T('a', '2'), T('b', 'new'), F('g', 'y', 'a/b', b'two')]),
        case('XyZ', [T('a', '1')], framing='chunked', chunks=[3, 5], mem=200, second=[F('a', 'y', 'a/b', b'two' * 30)]),
        # ---- one application serving many requests; configuration through setup() and by default
        case('XyZ', [T('a', '1'), F('f', 'x', 'a/b', b'one')], app='shared', cfg_via='setup', mem=300),
        case('XyZ', [T('b', '2')], app='shared', cfg_via='setup', mem=64),
        case('XyZ', [F('f', 'x', 'a/b', b'D' * 200)], app='shared', cfg_via='setup', mem=120),
        case('XyZ', [T('a', 'v')], cfg_via='default'),
        # ---- both framing headers: Transfer-Encoding: chunked together with a Content-Length (equal / stale / short / 0)
        case('XyZ', [T('a', 'v'), F('f', 'x', 'a/b', b'DATA' * 9)], framing='chunked', chunks=[9, 30], mem=64, cl_with_te='wire'),
        case('XyZ', [T('a', 'v'), F('f', 'x', 'a/b', b'DATA' * 9)], framing='chunked', chunks=[9, 30], mem=64, cl_with_te='body'),
        case('XyZ', [T('a', 'v'), F('f', 'x', 'a/b', b'DATA' * 9)], framing='chunked', chunks=[200], mem=300, cl_with_te='short',
             first='files'),
        case('XyZ', [T('a', 'v')], framing='chunked', chunks=[5], mem=64, cl_with_te='long', first='forms'),
        case('XyZ', [T('a', 'v')], framing='chunked', chunks=[5], mem=64, cl_with_te='zero',
             second=[T('b', 'w')]),
        # ---- boundary lengths around the RFC 2046 maximum (70), the whole bchars alphabet, inner spaces
        case('b', [T('a', 'v')]),
        case('bb', [T('a', 'v')]),
        case('B' * 69, [T('a', 'v'), F('f', 'x', 'a/b', b'\r\n--' + b'B' * 68)]),
        case('B' * 70, [T('a', 'v'), F('f', 'x', 'a/b', b'\r\n--' + b'B' * 69)]),
        case('B' * 69 + '?', [T('a', 'v')], framing='chunked', chunks=[40]),
        case("0123456789abcdefghijklmnopqrstuvwxyzABCDEFGHIJKLMNOPQRSTUVWXYZ'()+_,-./", [T('a', 'v')]),
        case("'()+_,-./:=? x", [T('a', 'v'), T('b', "'()+_,-./:=? ")]),
        case('a' + ' ' * 68 + 'b', [T('a', 'v')]),
        case('B' * 71, [T('a', 'v')]),           # longer than RFC 2046 allows: outside the property, model = code: accepted
        case('B' * 200, [T('a', 'v')]),
        # ---- negative read sizes on an upload that is FOLLOWED by other parts: read(-1) / read(-5) = the rest of the window
        case('XyZ', [F('a', 'a', 'a/b', b'0123456789'), T('t', 'after'), F('b', 'b', 'a/b', b'abcdefghij')],
             ops=[['r', -1], ['t'], ['s', 4, 0], ['r', -5], ['r', -1], ['s', 0, 0], ['r', 3], ['r', -1000]], k=-1, blk=-1),
        case('XyZ', [F('a', 'a', 'a/b', b'0123456789'), T('t', 'after')], ops=[['s', 2, 0], ['r', -1]], k=-5, mem=90),
        # ---- U+FEFF (BOM / zero width no-break space) at the start, in the middle and alone: an ordinary character of a value
        case('XyZ', [T('j', '\ufeff{"id": 1}'), T('b', '\ufeff'), T('m', 'a\ufeffb'), T('\ufeffn', '\ufeff\ufeffx'),
                     F('f', '\ufefff.txt', 'a/b', b'\xef\xbb\xbfDATA')]),
        # ---- chunk-size spellings: upper / mixed case hex (sizes with letters: 10..15, 26, 171 ...), leading zeros,
        # extensions, trailer fields
        case('XyZ', [T('a', 'v'), F('f', 'x', 'a/b', bytes(range(256)) * 2)], framing='chunked', chunks=[10, 11, 12, 13, 14, 15, 26, 171, 250],
             mem=64, cstyle=1),
        case('XyZ', [T('a', 'v'), F('f', 'x', 'a/b', bytes(range(256)) * 2)], framing='chunked', chunks=[171, 250, 43, 12], mem=300,
             cstyle=2, first='files'),
        case('XyZ', [T('a', 'v')], framing='chunked', chunks=[10, 27], mem=64, cstyle=3),
        case('XyZ', [T('a', 'v'), T('a', 'w')], framing='chunked', chunks=[11, 44], mem=64, cstyle=4),
        case('XyZ', [F('f', 'x', 'a/b', b'D' * 700)], framing='chunked', chunks=[175, 250], mem=64, cstyle=5, cl_with_te='body'),
        case('XyZ', [T('a', 'v')], framing='chunked', chunks=[12], mem=16, cstyle=6, sched=[0, 1, 0] * 60),
        case('XyZ', [T('a', 'v'), F('f', 'x', 'a/b', b'')], framing='chunked', chunks=[255, 10], mem=200, cstyle=7),
        # ---- short reads / early fragments on wsgi.input under both framings
        case('XyZ', [T('a', 'v' * 20), F('f', 'x', 'a/b', bytes(range(90)))], mem=50, sched=[0, 0, 3, 1, 0, 7, 0, 0, 2] * 9),
        case('XyZ', [T('a', 'v' * 20), F('f', 'x', 'a/b', bytes(range(90)))], mem=50, framing='chunked', chunks=[11, 2, 40],
             sched=[0, 1, 0, 0, 2, 0, 5] * 40),
        # ---- forms with very many tiny parts (a "count" threshold a hardening might add: sections = 1 + 2 per part);
        # kept at the end: the first 40 corpus cases are also evaluated inside Coq
        case('XyZ', [T('k%d' % i, str(i)) for i in range(499)], first='forms'),
        case('XyZ', [T('k%d' % (i % 50), 'v') for i in range(500)]),
        case('XyZ', [F('f%d' % i, 'n', 'a/b', b'') if i % 8 == 0 else T('t', '') for i in range(640)], first='files', blk=64),
        case('XyZ', [T('a', '') for i in range(999)], framing='chunked', chunks=[4000], mem=65536, cstyle=1),
    ]


NAME_ATOMS = ['a', 'b', 'x', 'name', 'filename', ';', '=', ' ', '\\', ':', '; filename=', '\u00e9', '\u4e2d', '\U0001f600', "'", 'K',
              '\x1f', '\t', 'A', '%22', ',', 'form-data', '\u212a', '\u0130', '\x00', '\xff', '\xa0', '/', '..', '\u00df',
              '\ufb01', '\u0301']


def gen_name(rng, allow_empty=True):
    r = rng.random()
    if r < 0.45:
        return rng.choice(['a', 'b', 'c', 'x'])
    n = rng.randrange(0 if allow_empty else 1, 5)
    return ''.join(rng.choice(NAME_ATOMS) for _ in range(n))


def gen_data(rng, boundary):
    tok = '\r\n--' + boundary
    atoms = ['\r', '\n', '-', '\r\n', '--', tok[:-1], tok[:max(1, len(tok) // 2)], 'x', boundary, '\r\n\r\n']
    while True:
        s = ''.join(rng.choice(atoms) for _ in range(rng.randrange(0, 9)))
        if (s + tok).find(tok) == len(s):
            return s


def gen(rng, n):
    for _ in range(n):
        r = rng.random()
        if r < 0.15:
            boundary = rng.choice(['-', '--', 'abab', 'aa', 'XyZ', '----WebKitFormBoundary7MA4YWxkTrZu0gW'])
        else:
            blen = rng.choice([1, 2, 3, 5, 8, 11, 40, 68, 69, 70, 70]) if rng.random() < 0.4 else rng.randrange(1, 12)
            boundary = ''.join(rng.choice(BCHARS + '  ') for _ in range(blen))
            if boundary[-1] == ' ':
                boundary = boundary[:-1] + rng.choice(BCHARS)
        fields = []
        for _ in range(rng.choice([0, 1, 1, 2, 2, 3, 3, 4, 5, 6])):
            name = gen_name(rng)
            data = gen_data(rng, boundary)
            if rng.random() < 0.45:
                content = data.encode('latin1')
                if rng.random() < 0.3:
                    content += bytes(rng.randrange(256) for _ in range(rng.randrange(0, 40)))
                if rng.random() < 0.1:
                    content = content * 40
                tokb = ('\r\n--' + boundary).encode()
                if (content + tokb).find(tokb) != len(content):
                    content = data.encode('latin1')
                fn = gen_name(rng, allow_empty=rng.random() < 0.03)
                ct = rng.choice(['text/plain', 'application/octet-stream', 'image/png', 'a/b', 'x', ''])
                clen = None
                if rng.random() < 0.1:
                    clen = rng.choice([len(content), 0, 7, '007'])
                fields.append(F(name, fn, ct, content, clen=clen))
            else:
                if rng.random() < 0.3:
                    data += rng.choice(['\u00e9', '\u4e2d\u6587', '\U0001f600', '\x00', '\x85', '\u2028', '\ufeff'])
                if rng.random() < 0.08:
                    data = rng.choice(['\ufeff', '\ufeff\ufeff', '\ufffe']) + data      # a leading BOM-like character
                fields.append(T(name, data))
        body_len = len(encode_form(boundary.encode(), fields))
        bud = budget(fields)
        mem = rng.choice([102400, 102400, max(1, bud), bud + 1, max(1, bud - 1), body_len, body_len + 1, max(1, body_len - 1),
                          max(1, body_len - 2), max(1, body_len // 2), bud + rng.randrange(0, 30), rng.randrange(1, 64)])
        mem = max(1, mem)
        framing = rng.choice(['cl', 'cl', 'chunked'])
        cstyle = rng.randrange(CHUNK_STYLES)
        if framing == 'chunked':
            mem = max(mem, 16 if cstyle else 5)
        ops = []
        if rng.random() < 0.4:
            for _ in range(rng.randrange(1, 8)):
                o = rng.random()
                if o < 0.45:
                    ops.append(['r', rng.choice([-1, -1, -5, -1000, 0, 1, 2, 5, 64, 1000])])
                elif o < 0.85:
                    ops.append(['s', rng.choice([-1000, -3, -1, 0, 1, 2, 9, 1000]), rng.choice([0, 0, 1, 1, 2, 2, 3])])
                else:
                    ops.append(['t'])
        second = None
        if rng.random() < 0.12:
            second = [T(gen_name(rng), gen_data(rng, boundary)) for _ in range(rng.randrange(0, 3))]
            if rng.random() < 0.5:
                second.append(F(gen_name(rng), 'f2', 'a/b', gen_data(rng, boundary).encode('latin1')))
        if second is not None:
            mem = max(mem, budget(second))
        cfg_via = rng.choice(['ctor', 'ctor', 'setup'])
        if mem == 102400 and rng.random() < 0.5:
            cfg_via = 'default'
        c = case(boundary, fields, mem=mem, k=rng.choice([0, 0, 1, 2, 5, 1000, -1, -5]),
                 blk=rng.choice([0, 1, 2, 3, 7, 64, 64, -1]), with_body=rng.random() < 0.3, ops=ops,
                 sched=[] if rng.random() < 0.6 else [rng.choice([0, 0, 1, 2, 3, 7, 20]) for _ in range(rng.randrange(1, 40))],
                 app=rng.choice(['own', 'own', 'shared']), cfg_via=cfg_via, copy=rng.random() < 0.25, second=second,
                 api=rng.random() < 0.25,
                 cl_with_te=rng.choice([None, None, 'wire', 'body', 'short', 'long', 'zero']), cstyle=cstyle,
                   framing=framing, first=rng.choice(['POST', 'forms', 'files']),
                   chunks=[rng.randrange(1, 40) for _ in range(rng.randrange(1, 4))])
        assert valid(c), c
        yield c


# ---------------------------------------------------------------- implementation
def snap_item(x, k):
    if hasattr(x, 'raw_filename'):
        ct = x.content_type
        ctv = cps(ct.value) if hasattr(ct, 'value') else None
        a = x.file.read(k)          # first snapshot: from the initial position of the window
        b = x.file.read()
        x.file.seek(0)              # rewind for the next snapshot (the same object is in POST and files)
        return ['f', cps(x.raw_filename), ctv, list(a), list(b)]
    return ['t', None if x is None else cps(x)]


def snap(d, k):
    out = []
    for key, v in d.items():
        items = v if isinstance(v, list) else [v]
        out.append([cps(key), isinstance(v, list), [snap_item(x, k) for x in items]])
    return out


def run_impl(case):
    return covered(ID, COV_TARGETS, _run_impl, case)


SAFE_FN = set('abcdefghijklmnopqrstuvwxyzABCDEFGHIJKLMNOPQRSTUVWXYZ0123456789-_.')


def run_ops(x, ops):
    """the file-operation script on one upload, results in the encoding of Fields.proxy_run"""
    out = []
    x.file.seek(0)
    for op in ops:
        if op[0] == 'r':
            b = x.file.read(op[1])            # the size verbatim: negative sizes too (read(-1) = the rest of the WINDOW)
            out += [0, len(b)] + list(b)
        elif op[0] == 's':
            try:
                out += [1, x.file.seek(op[1], op[2])]
            except ValueError:
                out += [2]
        else:
            out += [1, x.file.tell()]
    x.file.seek(0)
    return out


def api_pass(x):
    """the rest of the FileUpload / BytesIOProxy API; returns a dict checked by the oracle"""
    import os
    import shutil
    import tempfile
    r = {}
    f = x.file
    r['flags'] = [f.isatty(), f.seekable(), f.readable(), f.writable(), f.closed]
    try:
        f.fileno()
        r['fileno'] = 'returned'
    except OSError:
        r['fileno'] = 'OSError'
    f.flush()
    f.close()                                      # a no-op: the window stays readable
    f.seek(0)
    whole = f.read()
    r['after_close'] = list(whole)
    r['filename'] = [x.filename, x.filename]       # cached_property: twice
    h = x.get_header('Content-Type')
    r['get_header'] = None if h is None else cps(h.value)
    r['get_header_default'] = x.get_header('X-Absent', 'dflt')
    try:
        r['clen'] = x.content_length
    except Exception as e:
        r['clen'] = 'EXC:' + type(e).__name__
    f.seek(1)
    sink = io.BytesIO()
    x.save(sink, chunk_size=3)                     # from the current position, position restored afterwards
    r['saved_from_1'] = list(sink.getvalue())
    r['tell_after_save'] = f.tell()
    f.seek(0)
    d = tempfile.mkdtemp(prefix='mpB2_c07_')
    try:
        x.save(d)                                  # into a directory: named by the sanitised file name
        names = os.listdir(d)
        r['dir_names'] = names
        r['dir_content'] = list(open(os.path.join(d, names[0]), 'rb').read()) if names else None
        try:
            x.save(d)
            r['second_save'] = 'overwrote'
        except IOError:
            r['second_save'] = 'IOError'
        x.save(d, overwrite=True)
        target = os.path.join(d, 'explicit.bin')
        x.save(target)
        r['path_content'] = list(open(target, 'rb').read())
    finally:
        shutil.rmtree(d, ignore_errors=True)
    f.seek(0)
    # a FileUpload built by hand with a bytes file name (the only way to reach the bytes branch of .filename)
    from ombott.request_pkg.helpers import FileUpload
    r['bytes_filename'] = FileUpload(io.BytesIO(b'x'), 'n', b'caf\xc3\xa9 \xff/..\\x.txt').filename
    return r


_CUR = {}
_SHARED = []


def _handler():
    app, case, seen = _CUR['app'], _CUR['case'], _CUR['seen']
    rq = app.request
    k = case['k']
    getattr(rq, case['first'])
    seen['post'] = snap(rq.POST, k)
    seen['forms'] = snap(rq.forms, k)
    seen['files'] = snap(rq.files, k)
    # interleaved pass: all uploads, blk bytes at a time, round robin (every window is over the same source)
    ups = [x for v in rq.files.values() for x in (v if isinstance(v, list) else [v])]
    blocks = [[] for _ in ups]
    active = list(range(len(ups)))
    rounds = 0
    while active and rounds < 100000:
        rounds += 1
        for i in list(active):
            b = ups[i].file.read(case['blk'])
            if b:
                blocks[i].append(list(b))
            else:
                active.remove(i)
        if case['with_body']:
            rq.body.read(5)
    seen['inter'] = blocks
    seen['runs'] = [run_ops(x, case.get('ops') or []) for x in ups]
    if case.get('api'):
        seen['api'] = [api_pass(x) for x in ups]
    if case.get('copy'):
        c = rq.copy()
        seen['copy'] = [snap(c.POST, k), snap(c.forms, k), snap(c.files, k)]
    if case.get('second') is not None:
        body2 = encode_form(bytes(case['boundary']), case['second'])
        if case['framing'] == 'chunked':
            rq['wsgi.input'] = io.BytesIO(chunked(body2, case['chunks'], case.get('cstyle', 0)))
        else:
            rq['wsgi.input'] = io.BytesIO(body2)
            rq['CONTENT_LENGTH'] = str(len(body2))
        seen['second'] = [snap(rq.POST, k), snap(rq.forms, k), snap(rq.files, k)]
    return 'ok'


def _run_impl(case):
    from ombott import Ombott
    from props.common import FragStream
    body = encode_form(bytes(case['boundary']), case['fields'])
    cfg = dict(max_memfile_size=case['mem'])
    via = case.get('cfg_via', 'ctor')
    if case.get('app') == 'shared':
        if not _SHARED:
            shared = Ombott()
            shared.post('/')(_handler)
            _SHARED.append(shared)
        app = _SHARED[0]
        app.setup(cfg)                             # one application, re-configured per request
    else:
        if via == 'setup':
            app = Ombott()
            app.setup(cfg)
        elif via == 'default' and case['mem'] == 102400:
            app = Ombott()
        else:
            app = Ombott(cfg)
        app.post('/')(_handler)
    seen = {}
    _CUR.update(app=app, case=case, seen=seen)

    ctype = 'multipart/form-data; boundary=' + ''.join(chr(c) for c in case['boundary'])
    sched = case.get('sched') or []
    if case['framing'] == 'chunked':
        wire = chunked(body, case['chunks'], case.get('cstyle', 0))
        env = environ('POST', '/', **{'wsgi.input': QuietStream(wire, sched), 'CONTENT_TYPE': ctype,
                                      'HTTP_TRANSFER_ENCODING': 'chunked'})
        both = case.get('cl_with_te')
        if both:
            env['CONTENT_LENGTH'] = str({'wire': len(wire), 'body': len(body), 'short': max(1, len(body) // 3),
                                         'long': len(wire) + 1000, 'zero': 0}[both])
    else:
        env = environ('POST', '/', **{'wsgi.input': QuietStream(body, sched), 'CONTENT_TYPE': ctype,
                                      'CONTENT_LENGTH': str(len(body))})
    status = []
    done, _ = call_guarded(lambda: b''.join(app(env, lambda s, h, e=None: status.append(s))))
    if not done:
        return {'hang': True}
    code = int(status[0].split()[0])
    if code != 200:
        tb = env['wsgi.errors'].getvalue().strip().split('\n')
        return dict(status=code, error=tb[-1][:160] if tb and tb[-1] else '')
    obs = dict(status=200, post=seen.get('post'), forms=seen.get('forms'), files=seen.get('files'),
               inter=seen.get('inter'), runs=seen.get('runs'))
    for key in ('api', 'copy', 'second'):
        if key in seen:
            obs[key] = seen[key]
    return obs


def project(obs, case):
    if obs.get('status') != 200:
        return dict(status=obs.get('status'))
    return {k: obs.get(k) for k in ('status', 'post', 'forms', 'files', 'inter', 'runs')}


# ---------------------------------------------------------------- model side
def encode(case):
    body = encode_form(bytes(case['boundary']), case['fields'])
    ops = []
    for op in case.get('ops') or []:
        ops += [0, op[1]] if op[0] == 'r' else [1, op[1], op[2]] if op[0] == 's' else [2]
    return ([case['mem'], case['k'], case['blk']] + enc_str(case['boundary']) + enc_str(body)
            + [len(case.get('ops') or [])] + ops)


def _ostr(r):
    return r.str() if r.int() else None


def _item(r):
    if r.int() == 0:
        return ['t', _ostr(r)]
    fn = r.str()
    ct = _ostr(r)
    a = r.str()
    b = r.str()
    return ['f', fn, ct, a, b]


def _fdict(r):
    def entry(q):
        key = q.str()
        if q.int() == 0:
            return [key, False, [_item(q)]]
        return [key, True, q.list(_item)]
    return r.list(entry)


def decode(out, case):
    r = Reader(out)
    tag = r.int()
    if tag == 0:
        post = _fdict(r)
        forms = _fdict(r)
        files = _fdict(r)
        inter = r.list(lambda q: q.list(lambda z: z.str()))
        runs = r.list(lambda q: q.str())
        return dict(status=200, post=post, forms=forms, files=files, inter=inter, runs=runs)
    if tag == 1:
        return dict(status=r.int())
    if tag == 2:
        return dict(status=400)
    return dict(status=500)


# ---------------------------------------------------------------- the property, stated on the implementation
def expected(fields, which):
    """what the handler must see in POST / forms / files: names in order of first
    appearance, a single value or the list of values in submission order"""
    keys, vals = [], {}
    for f in fields:
        if which == 'forms' and f['kind'] != 'text':
            continue
        if which == 'files' and f['kind'] != 'file':
            continue
        key = tuple(f['name'])
        if key not in vals:
            keys.append(key)
            vals[key] = []
        if f['kind'] == 'text':
            vals[key].append(('t', tuple(f['value'])))
        else:
            vals[key].append(('f', tuple(f['filename']), tuple(f['ctype']), bytes(f['content'])))
    return [(k, vals[k]) for k in keys]


def got(entries):
    out = []
    for key, is_list, items in entries:
        vs = []
        for it in items:
            if it[0] == 't':
                vs.append(('t', None if it[1] is None else tuple(it[1])))
            else:
                vs.append(('f', tuple(it[1]), None if it[2] is None else tuple(it[2]), bytes(it[3]) + bytes(it[4])))
        if is_list != (len(items) > 1):
            vs.append('list-ness wrong')
        out.append((tuple(key), vs))
    return out


def oracle(case, obs):
    if not valid(case):
        return None          # outside the guard of the property (only reachable through shrinking / replays)
    if obs.get('hang'):
        return 'request did not terminate within %.2g s' % hang_limit()
    fields = case['fields']
    over = budget(fields) > case['mem']
    st = obs.get('status')
    if st != 200:
        if over and st == 413:
            return None
        return 'well-formed form rejected with status %s %s' % (st, obs.get('error', obs))
    if over:
        return 'in-memory budget of %d exceeded by %d bytes of headers+text but the form was accepted' % (
            case['mem'], budget(fields))
    for which in ('post', 'forms', 'files'):
        want = expected(fields, which)
        have = got(obs[which])
        if want != have:
            for i in range(max(len(want), len(have))):
                w = want[i] if i < len(want) else None
                h = have[i] if i < len(have) else None
                if w != h:
                    return 'Request.%s differs from the submitted fields at entry %d: sent %r, read back %r' % (
                        which if which != 'post' else 'POST', i, w, h)
    # block-wise, interleaved reads: every upload still delivers exactly its own bytes
    sent = [bytes(f['content']) for f in fields if f['kind'] == 'file' and f['filename']]
    inter = obs.get('inter')
    if inter is not None and len(inter) == len(sent):
        order = []                       # uploads in the order of Request.files (grouped by name)
        for key, is_list, items in obs['files']:
            for it in items:
                if it[0] == 'f':
                    order.append(bytes(it[3]) + bytes(it[4]))
        for i, blocks in enumerate(inter):
            joined = b''.join(bytes(b) for b in blocks)
            if i < len(order) and joined != order[i]:
                return ('upload %d read in interleaved blocks of %d gives %d bytes %r..., its content is %d bytes %r...'
                        % (i, case['blk'], len(joined), joined[:12], len(order[i]), order[i][:12]))
            if case['blk'] > 0 and any(len(b) != case['blk'] for b in blocks[:-1]):
                return 'upload %d: a block other than the last is not %d bytes long' % (i, case['blk'])
    uploads = [f for key, _ in expected(fields, 'files') for f in fields
               if f['kind'] == 'file' and tuple(f['name']) == key]
    # the same form through Request.copy(); another form through the same request after wsgi.input was replaced
    if 'copy' in obs and obs['copy'] != [obs['post'], obs['forms'], obs['files']]:
        return 'Request.copy() shows a different form than the request itself'
    if 'second' in obs:
        sec = case['second']
        for which, have in zip(('post', 'forms', 'files'), obs['second']):
            if expected(sec, which) != got(have):
                return ('after wsgi.input was replaced Request.%s still/again differs from the second form: sent %r, '
                        'read back %r' % (which, expected(sec, which)[:3], got(have)[:3]))
    # the rest of the upload API
    for i, a in enumerate(obs.get('api') or []):
        if i >= len(uploads):
            break
        f = uploads[i]
        content = bytes(f['content'])
        if a['flags'] != [False, True, True, False, False] or a['fileno'] != 'OSError':
            return 'upload %d: file flags %r / fileno %r' % (i, a['flags'], a['fileno'])
        if bytes(a['after_close']) != content:
            return 'upload %d: not readable after close()' % i
        fn = a['filename'][0]
        if (a['filename'][1] != fn or not fn or len(fn) > 255 or set(fn) - SAFE_FN or fn[0] in '.-' or fn[-1] in '.-'):
            return 'upload %d: FileUpload.filename %r is not a safe file name' % (i, a['filename'])
        if a['get_header'] != f['ctype'] or a['get_header_default'] != 'dflt':
            return 'upload %d: get_header gives %r / %r' % (i, a['get_header'], a['get_header_default'])
        # a['clen'] (FileUpload.content_length) is exercised but not judged: outside C07 (see API_SURFACE)
        if bytes(a['saved_from_1']) != content[1:] or a['tell_after_save'] != min(1, len(content)):
            return 'upload %d: save() to a file object wrote %d bytes from offset 1 of %d, position afterwards %r' % (
                i, len(a['saved_from_1']), len(content), a['tell_after_save'])
        if a['dir_names'] != [fn] or bytes(a['dir_content'] or b'') != content or bytes(a['path_content']) != content:
            return 'upload %d: save() to a directory/path: names %r' % (i, a['dir_names'])
        if a['bytes_filename'] != 'x.txt':
            return 'FileUpload.filename of a bytes file name: %r' % a['bytes_filename']
        if a['second_save'] != 'IOError':
            return 'upload %d: save() overwrote an existing file without overwrite=True' % i
    k = case['k']
    # whatever sizes were asked (negative ones too), the reads of an upload never yield more than its own content
    up_contents = [bytes(f['content']) for f in uploads]
    for i, run in enumerate(obs.get('runs') or []):
        j, longest = 0, 0
        while j < len(run):
            if run[j] == 0:
                longest = max(longest, run[j + 1])
                j += 2 + run[j + 1]
            elif run[j] == 1:
                j += 2
            else:
                j += 1
        if i < len(up_contents) and longest > len(up_contents[i]):
            return 'a read on upload %d returned %d bytes, the upload has %d' % (i, longest, len(up_contents[i]))
    for key, is_list, items in obs['files']:
        for it in items:
            if it[0] == 'f' and k > 0:
                whole = bytes(it[3]) + bytes(it[4])
                if len(it[3]) != min(k, len(whole)):
                    return 'file.read(%d) returned %d bytes of a %d byte upload' % (k, len(it[3]), len(whole))
    return None


def has_empty_filename(case, what, m):
    return any(f['kind'] == 'file' and not f['filename'] for f in case['fields'])


PREDICATES = {'has_empty_filename': has_empty_filename}

# AUDIT_BRIEF step 2: what of the anchored API can influence the observation, and which case kind exercises it
API_SURFACE = [
    ('Request.POST / forms / files (cache_in properties)', 'covered by every case; the first one read is case["first"]; all three are read'),
    ('Request.POST, non-multipart branches (json, urlencoded)', 'excluded: not multipart; covered by C12 (json) and C18 (urlencoded)'),
    ('Request.body between reads of uploads', 'covered by with_body (interleaved pass)'),
    ('Request.copy()', 'covered by copy=True: the copy shows the same three dictionaries'),
    ('Request.__setitem__("wsgi.input"/"CONTENT_LENGTH") (cache invalidation)', 'covered by second=<fields>: a second form through the same request'),
    ('config max_memfile_size: Ombott(dict) / Ombott.setup(dict) / default', 'covered by cfg_via ctor|setup|default, values at/below/above budget and body size'),
    ('config max_body_size', 'excluded: rejects the request (C13); exercised in C12'),
    ('one Ombott serving many requests', 'covered by app="shared" (a third of the generated cases, in sequence)'),
    ('wsgi.input short reads, Content-Length and chunked framing', 'covered by sched with framing cl|chunked'),
    ('chunk-size spellings (upper/mixed case hex, leading zeros, extensions, trailers)', 'covered by cstyle 0..7 under chunked framing'),
    ('forms with very many parts (499 / 500 / 640 / 999)', 'covered by four corpus cases'),
    ('both framing headers (Transfer-Encoding: chunked + Content-Length)', 'covered by cl_with_te wire|body|short|long|zero'),
    ('boundary: length 1..70 (RFC 2046 maximum), whole bchars alphabet, inner spaces; 71+ (illegal, accepted by the code)', 'covered by the boundary generator and corpus; 71+ compared with the model only'),
    ('FieldStorage.read / parse_header / iter_items, success paths', 'covered by every case'),
    ('FieldStorage error paths (BodyParsingError / BodySizeError raises)', 'excluded here: malformed bodies are C12 (246/246 lines there); the budget raise is covered (mem below budget)'),
    ('FieldStorage._patt', 'covered: names with ; = quotes-free text; text pinned (C07_option_regex_pinned)'),
    ('Header (SimpleNamespace name/value/options)', 'covered through content_type.value / get_header'),
    ('extra part headers (Content-Length inside a part)', 'covered by F(..., clen=...)'),
    ('BytesIOProxy.read(sz) incl. None, 0, negative, beyond the window', 'covered by k, blk and ops ["r", n]'),
    ('BytesIOProxy.seek(pos, whence) SEEK_SET/CUR/END, negative, beyond, bad whence; tell', 'covered by ops ["s", pos, whence] / ["t"] (model: proxy_seek, theorem C07_proxy_reads_stay_in_window)'),
    ('BytesIOProxy.isatty/seekable/readable/writable/fileno/closed/close/flush', 'covered by api=True'),
    ('several BytesIOProxy over one source', 'covered by the interleaved pass (blk) on every case with >= 2 uploads'),
    ('FileUpload.file / name / raw_filename / headers', 'covered by every case with an upload'),
    ('FileUpload.content_type (HeaderProperty -> Header object)', 'covered: observed as content_type.value on every upload'),
    ('FileUpload.content_length', 'excluded: outside C07/C12 (observation: raises TypeError when the part has a Content-Length '
                                  'header; one-line repair known); still exercised by api=True for coverage, not judged'),
    ('FileUpload.get_header(name, default)', 'covered by api=True'),
    ('FileUpload.filename (sanitised, cached)', 'covered by api=True: oracle checks the safe alphabet, length, no leading/trailing .-, stability; str and bytes raw names'),
    ('FileUpload.save(destination, overwrite, chunk_size): file object, directory, path, existing file', 'covered by api=True'),
    ('FileUpload._copy_file (restores the position)', 'covered by api=True (save from offset 1, tell afterwards)'),
    ('unicodedata.normalize / os.path.basename inside filename', 'excluded from the model: only the safety of the result is checked by the oracle'),
    ('locale / TZ', 'excluded: nothing in the anchored code depends on them'),
    ('lone surrogates in names/values', 'excluded: cannot be encoded as UTF-8 by a sender; undecodable bytes are C12'),
]


def nontrivial(case, obs):
    fs = case['fields']
    if len(fs) < 2 or obs.get('status') != 200:
        return False
    names = [tuple(f['name']) for f in fs]
    kinds = {f['kind'] for f in fs}
    special = any(c in (59, 61) or c > 127 for f in fs for c in f['name'] + f.get('filename', []))
    return len(set(names)) < len(names) or len(kinds) == 2 or special


def key(case):
    fs = case['fields']
    body_len = len(encode_form(bytes(case['boundary']), fs))
    memc = 'below' if case['mem'] < body_len else 'above'
    return (tuple((f['kind'], tuple(f['name']), len(part_data(f))) for f in fs), tuple(case['boundary']), memc,
            case['framing'])


def classify(case, obs):
    fs = case['fields']
    body_len = len(encode_form(bytes(case['boundary']), fs))
    names = [tuple(f['name']) for f in fs]
    return '%s/parts=%s/%s/mem-%s/%s/%s' % (
        case['framing'], min(len(fs), 3), 'dup' if len(set(names)) < len(names) else 'uniq',
        'below-body' if case['mem'] < body_len else 'above-body',
        'mixed' if len({f['kind'] for f in fs}) == 2 else 'one-kind', obs.get('status'))


def shrink(case):
    fs = case['fields']
    for i in range(len(fs)):
        yield dict(case, fields=fs[:i] + fs[i + 1:])
    for i, f in enumerate(fs):
        for fld in ('name', 'value', 'filename', 'content', 'ctype'):
            v = f.get(fld)
            if v and len(v) > 1:
                for j in range(len(v)):
                    yield dict(case, fields=fs[:i] + [dict(f, **{fld: v[:j] + v[j + 1:]})] + fs[i + 1:])
    if case['framing'] != 'cl':
        yield dict(case, framing='cl')
    if case['mem'] != 102400:
        yield dict(case, mem=102400)
    if case['k']:
        yield dict(case, k=0)
    if case.get('with_body'):
        yield dict(case, with_body=False)
    for key, dflt in (('ops', []), ('sched', []), ('copy', False), ('second', None), ('api', False), ('app', 'own')):
        if case.get(key) not in (dflt, None):
            yield dict(case, **{key: dflt})
    if len(case['boundary']) > 1:
        yield dict(case, boundary=case['boundary'][:-1])


MANIFEST = dict(
    text=('Proof (Coq, 12 theorems, all closed under the global context): C07_roundtrip states for ALL boundaries, ALL field '
          'lists within the guards (names/file names free of double quotes and str.splitlines breaks, plain content types, no '
          'delimiter inside data, non-empty file names) and ALL in-memory thresholds the header blocks and text values fit in, '
          'that Request.POST on the body a browser sends succeeds and that POST/forms/files show exactly the submitted fields '
          '(distinct names in order of first appearance, values in submission order, uploads via raw_filename, '
          'content_type.value and file.read()); C07_no_cross_part_bytes: every section is the window of its own part, windows '
          'ordered and disjoint; C07_roundtrip_streaming: the same for the streaming parser under ANY chunking (via C06); '
          'C07_roundtrip_through_pipeline: the same through the whole pipeline model (CONTENT_TYPE regex, Content-Length '
          'reading under any fragmentation and buffer size, any int() spelling of the length); '
          'C07_roundtrip_through_pipeline_chunked: the same for EVERY legal chunked encoding of the body (any chunk partition, '
          'hex spelling, extensions, trailer; composition of C05_exact, the reader refinement and C06). Model coq/model/Fields.v is tied to /repo on every run by a '
          'differential correspondence through Ombott.__call__ (both framings, thresholds below and above the body size) and '
          'an independent oracle compares the fields read back with the fields sent.'),
    note=('Trusted: Coq kernel + vm_compute; extraction (ExtrOcamlBasic only); the Python harness and its browser-side '
          'encoder; the hand-derived scanner for FieldStorage._patt (text pinned against Gen.v, derivation validated '
          'exhaustively to length 8); splitlines/strip/UTF-8 re-implementations (tied by correspondence). Uploads are also read '
          'block-wise and interleaved (several windows over one source, with Request.body in between). F10 (empty file name delivered as form value None) is a recorded '
          'finding; F8 and F9 were repaired.'),
    technique='Coq proof over an executable model + model/implementation correspondence + independent oracle',
    design_ref='DESIGN.md section 4, C07; Appendix A.3',
)
