"""C02 — method dispatch: verb, ANY and HEAD fallbacks, 405 with exact Allow."""
import itertools

from props import routerC_lib as L

ID = 'C02'
COQ_MODEL = 'model.Router'
COQ_CORR = 'corr_C02'
N_QUICK = 900
N_THOROUGH = 4000
THOROUGH_EXHAUSTIVE = True
VM_CASES = 25
RULE = ('case = a fresh application, 1..3 routes (literal, wildcard, shared pattern) and a random history of method-table '
        'edits on them (add with method subsets incl. ANY and lower/mixed-case spellings, overwrite=True, rejected adds, '
        'remove_method incl. removal to the empty table and wrong-case removal) with probes (3 verbs, one of them '
        'unregistered) after EVERY edit on the same router object, then every request verb of '
        '{GET,HEAD,POST,PUT,DELETE,PATCH,OPTIONS,ANY,BREW,get,Head} on matched and unmatched paths, observed through '
        'Ombott.to_route and Ombott.__call__ (status line, Allow header, handler called). thorough: all subsets of '
        '{GET,HEAD,POST,ANY} x 6 verbs x {matched, unmatched}. non-trivial = the history contains an overwrite, a '
        'rejected add or a removal and both a 405 and a fallback (HEAD->GET or ->ANY) were observed; distinct by history')
TRUSTED = ['modelled, not verified: str.upper on ASCII method names (a non-ASCII method name is outside the model); '
           'sorted() of str by code point',
           'the path part of resolve is the C01 model (model/Router.v get)']
ASSUMPTIONS = ['method names are ASCII']

VERBS = ['GET', 'HEAD', 'POST', 'PUT', 'DELETE', 'PATCH', 'OPTIONS', 'ANY', 'BREW', 'get', 'Head',
         'LOCK', 'UNLOCK', 'LINK', 'UNLINK', 'BIND', 'UNBIND', 'REBIND']
CONTAINED = ['LOCK', 'UNLOCK', 'LINK', 'UNLINK', 'BIND', 'UNBIND', 'REBIND']      # verb names that contain each other
RULES = [('/s', '/s', '/t'), ('/w/<x>', '/w/7', '/w'), ('/a/b', '/a/b/', '/a')]


def _probe_all(paths, verbs=VERBS):
    return [dict(op='dispatch', path=p, verb=v) for p in paths for v in verbs]


def corpus():
    cs = []
    cs.append(dict(cmds=[dict(op='add', rule='/s', methods=['GET'], h=1)] + _probe_all(['/s', '/t'])))
    cs.append(dict(cmds=[dict(op='add', rule='/s', methods=['ANY'], h=1), dict(op='add', rule='/s', methods=['post'], h=2)]
                   + _probe_all(['/s'])))
    # removal to the empty table: 405 with an empty Allow, never 404
    cs.append(dict(cmds=[dict(op='add', rule='/s', methods=['GET', 'POST'], h=1),
                         dict(op='remove_method', rule='/s', methods=['GET', 'POST'])] + _probe_all(['/s', '/t'])))
    # wrong-case removal is a no-op, HEAD falls back to GET before ANY
    cs.append(dict(cmds=[dict(op='add', rule='/s', methods=['GET'], h=1), dict(op='add', rule='/s', methods=['ANY'], h=2),
                         dict(op='remove_method', rule='/s', methods=['get'])] + _probe_all(['/s'])))
    # rejected add changes nothing (the check runs before any write), overwrite replaces
    cs.append(dict(cmds=[dict(op='add', rule='/s', methods=['GET'], h=1),
                         dict(op='add', rule='/s', methods=['PUT', 'get'], h=2),
                         dict(op='add', rule='/s', methods=['PUT', 'Get'], h=3, overwrite=True)] + _probe_all(['/s'])))
    # a 405 before and after every edit on one router object: Allow follows the table (no stale/cached Allow)
    cs.append(dict(cmds=[dict(op='add', rule='/s', methods=['GET', 'POST', 'PUT'], h=1)] + _probe_all(['/s'], ['BREW'])
                   + [dict(op='remove_method', rule='/s', methods=['POST'])] + _probe_all(['/s'], ['BREW', 'POST'])
                   + [dict(op='add', rule='/s', methods=['DELETE'], h=2)] + _probe_all(['/s'], ['BREW'])
                   + [dict(op='add', rule='/s', methods=['get'], h=3, overwrite=True)] + _probe_all(['/s'], ['BREW'])
                   + [dict(op='remove_method', rule='/s', methods=['GET', 'PUT', 'DELETE'])] + _probe_all(['/s'], ['BREW', 'GET'])))
    # one registration for several verbs, then a NON-first verb removed through its RouteMethod object
    cs.append(dict(cmds=[dict(op='add', rule='/s', methods=['GET', 'POST', 'DELETE'], h=1),
                         dict(op='remove_via', rule='/s', verb='DELETE')] + _probe_all(['/s'], ['GET', 'POST', 'DELETE', 'BREW'])
                   + [dict(op='remove_via', rule='/s', verb='POST', path='/s')] + _probe_all(['/s'], ['GET', 'POST', 'DELETE', 'BREW'])
                   + [dict(op='remove_via', rule='/s', verb='put')] + _probe_all(['/s'], ['GET', 'BREW'])))
    # the Route API used directly: 'get' stays lower-case (never dispatched, but listed in Allow); Route.__call__; meta
    cs.append(dict(cmds=[dict(op='add', rule='/s', methods='POST', h=1, via='router_add', meta=7),
                         dict(op='route_method', rule='/s', methods='get', h=2),
                         dict(op='route_method', rule='/s', methods=['POST', 'PUT'], h=3),
                         dict(op='route_method', rule='/s', methods=['POST', 'PUT'], h=4, overwrite=True)]
                   + _probe_all(['/s'], ['GET', 'POST', 'PUT', 'BREW'])
                   + [dict(op='call_route', rule='/s', verb=v) for v in ('get', 'GET', 'PUT')]
                   + [dict(op='call_route', rule='/t', verb='GET'), dict(op='by_rule', rule='/s', form='dict')]))
    # verb names that contain each other: removing UNLOCK (as a str, and through its RouteMethod) leaves LOCK alone
    cs.append(dict(cmds=[dict(op='add', rule='/s', methods=['LOCK', 'UNLOCK', 'LINK', 'UNLINK', 'BIND', 'UNBIND', 'REBIND'], h=1),
                         dict(op='remove_method', rule='/s', methods='UNLOCK')] + _probe_all(['/s'], ['LOCK', 'UNLOCK', 'BREW'])
                   + [dict(op='remove_via', rule='/s', verb='UNLINK')] + _probe_all(['/s'], ['LINK', 'UNLINK', 'BREW'])
                   + [dict(op='remove_method', rule='/s', methods='REBIND'), dict(op='remove_via', rule='/s', verb='UNBIND', path='/s')]
                   + _probe_all(['/s'], ['BIND', 'UNBIND', 'REBIND', 'BREW']) + [dict(op='by_rule', rule='/s')]))
    # the method argument as every kind of iterable, one-shot ones included, through Ombott.add_route / route
    cs.append(dict(cmds=[dict(op='add', rule='/s', methods=['GET', 'POST'], h=1, mkind='gen'),
                         dict(op='add', rule='/w/<x>', methods=['PUT', 'DELETE'], h=2, mkind='map', via='route_deco'),
                         dict(op='add', rule='/a/b', methods=['GET'], h=3, mkind='iter', via='route_cb'),
                         dict(op='add', rule='/a/b', methods=['POST', 'PUT'], h=4, mkind='dict_keys'),
                         dict(op='add', rule='/a/b', methods=['DELETE'], h=5, mkind='set'),
                         dict(op='add', rule='/s', methods=['PATCH', 'put'], h=6, mkind='tuple')]
                   + _probe_all(['/s', '/w/7', '/a/b'], ['GET', 'POST', 'PUT', 'DELETE', 'PATCH', 'BREW'])
                   + [dict(op='by_rule', rule=r) for r in ('/s', '/w/<x>', '/a/b')]))
    # one verb given as an instance of a str SUBCLASS (enum member, http.HTTPMethod): one method, not its characters
    cs.append(dict(cmds=[dict(op='add', rule='/s', methods='GET', h=1, mkind='httpmethod'),
                         dict(op='add', rule='/s', methods='post', h=2, mkind='enum', via='route_deco'),
                         dict(op='add', rule='/w/<x>', methods='PUT', h=3, mkind='strsub', via='router_add'),
                         dict(op='add', rule='/a/b', methods=['GET', 'DELETE'], h=4, mkind='enum')]
                   + _probe_all(['/s', '/w/7', '/a/b'], ['GET', 'POST', 'PUT', 'DELETE', 'G', 'E', 'T', 'BREW'])
                   + [dict(op='by_rule', rule=r) for r in ('/s', '/w/<x>', '/a/b')]))
    # a before_request hook rewrites REQUEST_METHOD / PATH_INFO: the request as it is at dispatch time decides
    cs.append(dict(cmds=[dict(op='add', rule='/s', methods=['GET'], h=1), dict(op='add', rule='/s', methods=['POST'], h=2),
                         dict(op='add', rule='/w/<x>', methods=['PUT'], h=3),
                         dict(op='dispatch', path='/s', verb='POST', sent=dict(path='/s', verb='GET')),
                         dict(op='dispatch', path='/s', verb='DELETE', sent=dict(path='/s', verb='GET')),
                         dict(op='dispatch', path='/w/7', verb='PUT', sent=dict(path='/s', verb='PUT')),
                         dict(op='dispatch', path='/nowhere', verb='GET', sent=dict(path='/s', verb='GET')),
                         dict(op='dispatch', path='/s', verb='GET', sent=dict(path='/nowhere', verb='BREW')),
                         dict(op='dispatch', path='/w/7', verb='PUT', sent=dict(path='/w/é', verb='GET'))]))
    # OPTIONS (sent with the CORS preflight headers, any case): 405 + Allow unless OPTIONS / ANY is registered
    cs.append(dict(cmds=[dict(op='add', rule='/s', methods=['GET', 'POST'], h=1), dict(op='add', rule='/w/<x>', methods=['OPTIONS'], h=2),
                         dict(op='add', rule='/a/b', methods=['ANY'], h=3)]
                   + _probe_all(['/s', '/w/7', '/a/b', '/t'], ['OPTIONS', 'options', 'Options', 'GET'])))
    # HEAD registered explicitly wins over GET
    cs.append(dict(cmds=[dict(op='add', rule='/s', methods=['GET'], h=1), dict(op='add', rule='/s', methods=['HEAD'], h=2)]
                   + _probe_all(['/s'])))
    return cs


def _history(rng, rule, h0):
    cmds = []
    for k in range(rng.randrange(1, 7)):
        r = rng.random()
        pool = ['GET', 'HEAD', 'POST', 'PUT', 'ANY', 'DELETE'] if rng.random() < 0.7 else CONTAINED
        ms = rng.sample(pool, rng.randrange(1, 4))
        ms = [m.lower() if rng.random() < 0.2 else (m.capitalize() if rng.random() < 0.1 else m) for m in ms]
        if r < 0.42:
            cmds.append(L.vary_add(rng, dict(op='add', rule=rule, methods=ms, h=h0 + k)))
        elif r < 0.6:
            cmds.append(L.vary_add(rng, dict(op='add', rule=rule, methods=ms, h=h0 + k, overwrite=True)))
        elif r < 0.7:
            # the Route API used directly: no upper-casing, no parameter names; a plain str is one method
            cmds.append(dict(op='route_method', rule=rule, methods=ms if rng.random() < 0.7 else ms[0], h=h0 + k,
                             overwrite=rng.random() < 0.5))
        elif r < 0.85:
            # a list of verbs, or ONE verb as a plain str
            cmds.append(dict(op='remove_method', rule=rule, methods=ms if rng.random() < 0.5 else ms[0]))
        else:
            # removal through the RouteMethod object of ONE verb (route[verb].remove() / resolve(...)[0][0].remove())
            hit = next(h for ru, h, _m in RULES if ru == rule)
            cmds.append(dict(op='remove_via', rule=rule, verb=ms[-1],
                             path=hit if rng.random() < 0.5 else None))
    return cmds


def gen(rng, n):
    for _ in range(n):
        picks = rng.sample(RULES, rng.randrange(1, 4))
        cmds = []
        if rng.random() < 0.8:
            cmds.append(dict(op='add', rule=picks[0][0], methods=[rng.choice(['GET', 'ANY', 'POST'])], h=0))
        for i, (rule, hit, miss) in enumerate(picks):
            cmds += _history(rng, rule, 10 * (i + 1))
        rng.shuffle(cmds)
        hit_of = {rule: hit for rule, hit, miss in RULES}
        # probes interleaved after EVERY edit, on the same router object: a 405 seen before an edit must not
        # leak into the answer after it (cached Allow, stale tables ...)
        inter = []
        for c in cmds:
            inter.append(c)
            vs = rng.sample(VERBS, 2) + [rng.choice(['BREW', 'OPTIONS', 'PATCH'])]
            inter += _probe_all([hit_of[c['rule']]], vs)
        paths = []
        for rule, hit, miss in picks:
            paths += [hit, miss]
        verbs = rng.sample(VERBS, 5) + ['HEAD', 'GET']
        tail = []
        for rule, hit, miss in picks:
            tail += [dict(op='call_route', rule=rule, verb=v) for v in rng.sample(VERBS, 3)]      # Route.__call__
            tail.append(dict(op='by_rule', rule=rule, form=rng.choice(['set', 'dict', 'routekey'])))
        probes = inter + _probe_all(paths, verbs)
        for c in probes:
            if c['op'] == 'dispatch' and rng.random() < 0.1:
                # the client sends something else; a before_request hook rewrites method / path before the dispatch
                c['sent'] = dict(verb=rng.choice(VERBS), path=rng.choice(paths + [c['path']]))
        yield dict(cmds=probes + tail)


def thorough():
    ms = ['GET', 'HEAD', 'POST', 'ANY']
    for k in range(0, 5):
        for sub in itertools.combinations(ms, k):
            cmds = [dict(op='add', rule='/s', methods=['PUT'], h=0), dict(op='remove_method', rule='/s', methods=['PUT'])]
            cmds += [dict(op='add', rule='/s', methods=[m], h=i + 1) for i, m in enumerate(sub)]
            yield dict(cmds=cmds + _probe_all(['/s', '/t'], ['GET', 'HEAD', 'POST', 'PUT', 'ANY', 'OPTIONS']))


def run_impl(case):
    return L.run_script(case)


def project(obs, case):
    return L.strip(obs)


def encode(case):
    return L.encode(case)


def decode(out, case):
    return L.decode(out, case)


def oracle(case, obs):
    """status / Allow / handler through WSGI against the registered method sets"""
    if not isinstance(obs, list) or len(obs) != len(case['cmds']):
        return 'harness: %s' % (obs,)
    hit_of = {rule: hit for rule, hit, miss in RULES}
    tables = {}      # rule -> {METHOD: h}
    metas = {}       # rule -> {METHOD: meta}
    for c, o in zip(case['cmds'], obs):
        if c['op'] == 'add':
            ms = [m.upper() for m in (c['methods'] if isinstance(c['methods'], list) else [c['methods']])]
            t = tables.setdefault(c['rule'], {})
            taken = [m for m in ms if m in t]
            if not c.get('overwrite') and taken:
                if o != 5:
                    return 'add %s on %s with %s taken: expected RouteMethodError, got %s' % (ms, c['rule'], taken, o)
                continue
            if o != 0:
                return 'add %s on %s failed with %s' % (ms, c['rule'], o)
            for m in ms:
                t[m] = c['h']
                metas.setdefault(c['rule'], {})[m] = c.get('meta')
        elif c['op'] == 'route_method':
            t = tables.get(c['rule'])
            if t is None:
                if o != 0:
                    return 'route_method on an unregistered rule answered %s' % o
                continue
            ms = c['methods'] if isinstance(c['methods'], list) else [c['methods']]
            taken = [m for m in ms if m in t]
            if not c.get('overwrite') and taken:
                if o != 5:
                    return 'route.add_method %s on %s with %s taken: expected RouteMethodError, got %s' % (ms, c['rule'], taken, o)
                continue
            if o != 0:
                return 'route.%s_method %s on %s failed with %s' % ('set' if c.get('overwrite') else 'add', ms, c['rule'], o)
            for m in ms:
                t[m] = c['h']
                metas.setdefault(c['rule'], {})[m] = None
        elif c['op'] == 'call_route':
            t = tables.get(c['rule'])
            want = 'noroute' if t is None else (['called', t[c['verb']]] if c['verb'] in t else 'nomethod')
            if o != want:
                return 'route(%r) on %s: expected %s, got %s' % (c['verb'], c['rule'], want, o)
        elif c['op'] == 'by_rule':
            t = tables.get(c['rule'])
            if (t is None) != (o is None):
                return 'router[%s] is %s but the rule is %sregistered' % (c['rule'], o, '' if t is not None else 'not ')
            if t is not None:
                got = {''.join(map(chr, m[0])): m[1] for m in o['methods']}
                if got != t:
                    return 'router[%s].methods = %s, registered %s' % (c['rule'], got, t)
                gm = {k: v for k, v in o.get('metas', {}).items()}
                wm = {k: v for k, v in metas.get(c['rule'], {}).items() if k in t and v is not None}
                if gm != wm:
                    return 'meta of the methods of %s: %s, registered with %s' % (c['rule'], gm, wm)
        elif c['op'] == 'remove_method':
            t = tables.get(c['rule'])
            if t is not None:
                for m in (c['methods'] if isinstance(c['methods'], list) else [c['methods']]):
                    t.pop(m, None)
        elif c['op'] == 'remove_via':
            t = tables.get(c['rule'])
            if t is not None:
                t.pop(c['verb'], None)         # exactly the verb whose RouteMethod was removed
        elif c['op'] == 'dispatch':
            w = o['wsgi']
            sp = c['path'].strip('/')
            rule = next((r for r in tables if hit_of[r].strip('/') == sp), None)
            verb = c['verb'].upper()
            handlers = [x for x in w.get('calls', []) if x[0] == 'handler']
            if rule is None:
                if w.get('status') != 404 or handlers:
                    return '%s %r matches no route but the answer is %s' % (verb, c['path'], w.get('status'))
                if o['direct'].get('kind') != 404:
                    return 'resolve: %r matches no route but gives %s' % (c['path'], o['direct'].get('kind'))
                continue
            t = tables[rule]
            if w.get('status') == 404 or o['direct'].get('kind') == 404:
                return '%s %r matches route %s but the answer is 404' % (verb, c['path'], rule)
            want, via = t.get(verb), verb
            if want is None and verb == 'HEAD':
                want, via = t.get('GET'), 'GET'
            if want is None:
                want, via = t.get('ANY'), 'ANY'
            if want is None:
                allow = L.cps(','.join(sorted(t)))
                if w.get('status') != 405 or handlers:
                    return '%s on %s with methods %s: expected 405, got %s' % (verb, rule, sorted(t), w.get('status'))
                if w.get('allow') != allow or o['direct'].get('allow') != allow:
                    return '%s on %s: Allow is %r, registered methods are %s' % (
                        verb, rule, ''.join(map(chr, w.get('allow') if isinstance(w.get('allow'), list) and all(isinstance(x, int) for x in w.get('allow')) else [])), sorted(t))
            else:
                if w.get('status') != 200 or [x[1] for x in handlers] != [want]:
                    return '%s on %s with methods %s: expected handler %d, got status %s handlers %s' % (
                        verb, rule, sorted(t), want, w.get('status'), [x[1] for x in handlers])
                if o['direct'].get('h') != want:
                    return 'resolve: %s on %s: expected handler %d, got %s' % (verb, rule, want, o['direct'].get('h'))
                if o['direct'].get('method') != L.cps(via):
                    return 'resolve: %s on %s dispatched to the entry of %s but the RouteMethod calls itself %r' % (
                        verb, rule, via, ''.join(map(chr, o['direct'].get('method') or [])))
    return None


def nontrivial(case, obs):
    edits = any((c['op'] == 'add' and (c.get('overwrite') or o == 5)) or c['op'] in ('remove_method', 'remove_via', 'route_method')
                for c, o in zip(case['cmds'], obs))
    saw405 = any(c['op'] == 'dispatch' and o['wsgi'].get('status') == 405 for c, o in zip(case['cmds'], obs))
    fb = any(c['op'] == 'dispatch' and o['direct'].get('kind') == 200
             and o['direct'].get('method') != L.cps(c['verb'].upper()) for c, o in zip(case['cmds'], obs))
    return edits and saw405 and fb


def key(case):
    return tuple((c['op'], c.get('rule'), tuple(c.get('methods') or ()), bool(c.get('overwrite')))
                 for c in case['cmds'] if c['op'] != 'dispatch')


def classify(case, obs):
    st = set()
    for c, o in zip(case['cmds'], obs):
        if c['op'] == 'dispatch':
            st.add(o['wsgi'].get('status'))
        elif c['op'] == 'call_route':
            st.add('call')
    rej = any(c['op'] == 'add' and o == 5 for c, o in zip(case['cmds'], obs))
    return 'statuses=%s%s' % (sorted(st, key=str), '/rejected-add' if rej else '')


def shrink(case):
    return L.shrink_cmds(case)


API_SURFACE = L.API_SURFACE          # audit round 4: see tools/props/routerC_lib.py

PREDICATES = {}

MANIFEST = dict(
    text=('Proof (Coq, closed under the global context): C02_dispatch_order, C02_allow_exact, C02_404_iff_no_route, '
          'C02_405_only_on_matched_route, C02_case_insensitive, C02_history over coq/model/Dispatch.v + Router.v state for '
          'ALL method tables, edit histories, request verbs and paths. The model is tied to /repo on every run by the '
          'differential correspondence through Ombott.to_route and Ombott.__call__; an independent oracle compares '
          'status/Allow/handler with the registered method sets.'),
    note=('Trusted: Coq kernel + vm_compute; extraction; the harness; the candidate lists come from ombott.py via Gen.v. '
          'Method names ASCII. The 404/405 split is stated relative to the tree lookup `get`; its equality with the '
          'rule-by-rule spec is C01.'),
    technique='Coq proof (induction over edit histories, association-list lemmas) + correspondence',
    design_ref='DESIGN.md section 4, C02',
)
