"""C09 — each response depends on its own request only; retained state is bounded.

One application object serves a generated history of requests on one thread.
The application is static: its hooks, route hooks, handler, partial-404 hook
and error handlers are interpreters that look up, by the id found in the
*current request's* environ, the program (C03 grammar) they run — so what they
do is a function of what they can legitimately read.  A `peek` before-hook
dumps the response object as handed over, an `echo` handler returns what it
reads from app.request, a `body` handler reads request.body.

Compared with the model (coq/model/History.v): the full event trace of every
request, the requests owning the frames in the traceback chain of every shared
errors_map error, and the requests whose input stream is still alive.
Oracle: the response of request k equals the response of the same request on a
fresh application in a fresh process on a fresh thread; alive environs / input streams
<= 1 + 2 x |errors_map| and only of requests a shared error refers to (traceback or __context__);
every shared error's chain holds frames of at most one request.
"""
import gc
import html
import io
import json
import threading
import weakref
from urllib.parse import quote

from props.common import enc_str, enc_list, Reader
from props import C03 as c3

ID = 'C09'
COQ_MODEL = 'model.History'
COQ_CORR = 'corr_C09'
N_QUICK = 130
N_THOROUGH = 700
VM_CASES = 25
RULE = ('cases = corpus + random histories of 1..8 requests on one application (outcome classes: handler programs of '
        'the C03 grammar incl. cookies/headers/status set on the response, raised and returned responses, crashes, '
        '404 with and without partial hook, 405, undecodable PATH_INFO (invalid UTF-8 and non-Latin-1), body read ok / '
        'oversized (413) / malformed chunked (400), echo of the request, HEAD, HTML and JSON error pages, custom error '
        'handlers, peek hook dumping the response object as handed over) + retention histories of N in {10,100,1000} '
        '(thorough 5000) requests of one class. non-trivial = at least two requests of which an earlier one leaves '
        'state (cookie/header/status/body error/bad path) ; distinct by the whole history')
TRUSTED = [
    'runtime assumption written into the model and checked by the correspondence only: raising an exception instance '
    'that already has a __traceback__ prepends the new frames (History.raise_shared_F12); after with_traceback(None) '
    'the chain holds the frames of the current raise only (History.raise_shared)',
    'not verified: CPython reference counting / gc (weak-reference liveness is measured after gc.collect()); memory '
    'held by C extensions; module-level caches error_render._html_lns and filter_factory._filter_cache hold no '
    'per-request data (read: template lines and compiled filters only)',
    'section-free theorem: a_beh (what hooks/handlers do) is an arbitrary function of the request and of the response '
    'object as handed over; a_eh arbitrary',
]
ASSUMPTIONS = ['one worker thread per history (threads: C08)', 'handlers keep no state of their own',
               'custom error handlers do not mutate the shared errors_map instances']

MAX_BODY = 1200         # config.max_body_size of the generated applications
MEMFILE = 600           # config.max_memfile_size (also the in-memory budget of multipart fields)
INT_LIMIT_PATH = '/n/' + '9' * 4301     # int() refuses more than 4300 digits: the int filter raises inside the router
SHARED = [  # DefaultConfig.errors_map in source order: (index, status, body)
    (0, 400, 'Bad request'),
    (1, 413, 'Request entity too large'),
    (2, 400, 'Error while parsing chunked transfer body'),
]


class Marker:
    """lives in the environ of one request: alive <=> that environ is still reachable"""

    def __init__(self, rid):
        self.rid = rid


class RecStream:
    """wsgi.input: weak-referenceable, remembers which request it belongs to; `short` = the most bytes one
    read() returns (a socket-like stream), None = as many as asked for"""

    def __init__(self, rid, data, short=None):
        self.rid, self._b, self._short = rid, io.BytesIO(bytes(data)), short

    def read(self, n=-1):
        if self._short is not None and (n is None or n < 0 or n > self._short):
            n = self._short
        return self._b.read(n)

    def readline(self, *a):
        return self._b.readline(*a)


def req_path(case):
    rt = case['routing']
    if rt['k'] == 'raise':
        return INT_LIMIT_PATH
    if rt['k'] == '404':
        base = '/zz/x' if rt.get('partial') is None else '/nf/x'
    elif rt['k'] == '405':
        base = '/m/t'
    else:
        base = '/h/a/t'
    if case.get('path') == 'special':
        base += c3.SPECIAL_TAIL
    return base


def raw_path_of(req):
    """PATH_INFO as the server hands it over (a Latin-1 str)"""
    k = req['class']
    if k == 'badpath':
        return {'utf8': '/h/a/\xff', 'latin1': '/h/a/€', 'trunc': '/h/a/\xe2\x82'}[req['bad']]
    return req_path(req['case']).encode('utf8').decode('latin1')


def seen_path(req):
    """PATH_INFO as app.request sees it when the error page is rendered"""
    if req['class'] == 'badpath':
        return raw_path_of(req)
    return req_path(req['case'])


def url_repr(req):
    qs = req.get('qs', '')
    return repr(html.escape('http://localhost' + quote(seen_path(req)) + ('?' + qs if qs else '')))


def make_environ(req, streams):
    case = req['case']
    body = bytes(req.get('body', []))
    st = RecStream(req['id'], body, req.get('short'))
    mk = Marker(req['id'])
    streams.append((weakref.ref(mk), weakref.ref(st)))
    env = {
        'REQUEST_METHOD': case['method'], 'PATH_INFO': raw_path_of(req), 'QUERY_STRING': req.get('qs', ''),
        'SERVER_NAME': 'localhost', 'SERVER_PORT': '80', 'SERVER_PROTOCOL': 'HTTP/1.1', 'wsgi.url_scheme': 'http',
        'wsgi.input': st, 'wsgi.errors': io.StringIO(), 'wsgi.version': (1, 0),
        'wsgi.multithread': False, 'wsgi.multiprocess': False, 'wsgi.run_once': False, 'SCRIPT_NAME': '',
        'x.req_id': req['id'], 'x.marker': mk,
    }
    if req['class'] == 'nopath':
        # PEP 3333: a variable whose value would be the empty string may be left out by the server
        del env['PATH_INFO']
    if req.get('ctype'):
        env['CONTENT_TYPE'] = req['ctype']
    if req.get('chunked') or req.get('te'):
        env['HTTP_TRANSFER_ENCODING'] = req.get('te') or 'chunked'
        if req.get('cl') is not None:
            env['CONTENT_LENGTH'] = str(req['cl'])
    elif body or req.get('cl') is not None:
        env['CONTENT_LENGTH'] = str(req.get('cl', len(body)))
    if req.get('cookie'):
        env['HTTP_COOKIE'] = 'c=' + req['cookie']
    if req.get('xcustom'):
        env['HTTP_X_CUSTOM'] = req['xcustom']
    if req.get('remote'):
        env['REMOTE_ADDR'] = req['remote']
    if req.get('xhr'):
        env['HTTP_X_REQUESTED_WITH'] = 'XMLHttpRequest'
    if case['json']:
        env['HTTP_ACCEPT'] = 'application/json'
    if case['fw']:
        env['wsgi.file_wrapper'] = c3.RecWrapper
    return env


def dump_response(resp):
    hs = ''.join('%s=%s;' % (k, ','.join(v if isinstance(v, list) else [v])) for k, v in resp._headers.items())
    cs = ''.join(m.OutputString() + ';' for m in resp._cookies.values()) if resp._cookies else ''
    return '%s|%s|%s' % (resp._status_line, hs, cs)


def echo_uploads(rq):
    """everything a handler can read about the uploaded files: field name, client file name, content type,
    every part header (name=value, sorted), one header through get_header, the size; then the form fields"""
    out = []
    for k in sorted(rq.files.keys()):
        f = rq.files[k]
        ct = f.content_type
        tag = f.get_header('X-Tag', 'none')
        out.append('%s|%s|%s|%s|%s|%d' % (
            k, f.raw_filename, getattr(ct, 'value', ct),
            ';'.join('%s=%s' % (n, f.headers[n].value) for n in sorted(f.headers.keys())),
            getattr(tag, 'value', tag), len(f.file.read())))
    return '\n'.join(out) + '#' + ','.join('%s=%s' % (k, rq.forms[k]) for k in sorted(rq.forms.keys()))


def expected_uploads(parts):
    """the same text, from the parts the harness wrote into the body"""
    out, forms = [], []
    for p in sorted(parts, key=lambda p: p['name']):
        if p.get('filename') is None:
            forms.append('%s=%s' % (p['name'], p['data']))
            continue
        hs = {'Content-Disposition': 'form-data'}
        hs.update(dict(p.get('headers', [])))
        out.append('%s|%s|%s|%s|%s|%d' % (
            p['name'], p['filename'], hs.get('Content-Type', ''),
            ';'.join('%s=%s' % (n, hs[n]) for n in sorted(hs)), hs.get('X-Tag', 'none'), len(p['data'].encode())))
    return '\n'.join(out) + '#' + ','.join(sorted(forms))


def upload_body(parts):
    segs = []
    for p in parts:
        disp = 'Content-Disposition: form-data; name="%s"' % p['name']
        if p.get('filename') is not None:
            disp += '; filename="%s"' % p['filename']
        hs = ''.join('%s: %s\r\n' % (n, v) for n, v in p.get('headers', []))
        segs.append('%s\r\n%s\r\n%s\r\n' % (disp, hs, p['data']))
    return _mp(segs)


def build_app(case, rec_box):
    """the static application; rec_box[0] is the recorder of the request being served"""
    from ombott import Ombott
    cfg = {'max_body_size': MAX_BODY, 'max_memfile_size': MEMFILE}
    if case.get('debug'):
        cfg['debug'] = True             # error pages show repr(exception) and the traceback text
    if case.get('cfg_via') == 'setup':
        app = Ombott()
        app.setup(cfg)
    else:
        app = Ombott(cfg)
    progs = {r['id']: r for r in case['reqs']}

    def cur():
        return progs[app.request.environ['x.req_id']]

    def interp(tag, i, pick):
        def f(*a, **kw):
            req = cur()
            h = pick(req['case'])
            if h is None:
                return None
            idx = None if i is None else (i + 1 if tag == 'hookB' and case['peek'] else i)
            rec_box[0].ev.append([tag, idx] if idx is not None else [tag])
            if h.get('special') == 'echo':
                rq = app.request
                # what a handler can read about its own request, through the cached / parsed accessors too
                return '%s %s %s %s|%s|%s|%s|%s|%s|%s' % (
                    rq.method, rq.path, rq.query_string, rq.get_cookie('c'),
                    ','.join('%s=%s' % (k, rq.query[k]) for k in sorted(rq.query.keys())),
                    rq.headers.get('X-Custom', '-'), rq.remote_addr, rq.url, rq.is_xhr,
                    ','.join(sorted(rq.params.keys())))
            if h.get('special') == 'body':
                return str(len(app.request.body.read()))
            if h.get('special') == 'json':
                return 'json:' + json.dumps(app.request.json, sort_keys=True)
            if h.get('special') == 'forms':
                return ','.join(sorted(app.request.forms.keys()))
            if h.get('special') == 'upload':
                return echo_uploads(app.request)
            if h.get('special') == 'retresp':
                # "set status / headers / cookies, return response": the per-thread Response object itself
                # (iterable over its .body, which response.__init__() has just set to '')
                c3.run_prog(app, dict(h, res=dict(k='ret', o=dict(k='falsy', v='none'))), rec_box[0])
                return app.response
            return c3.run_prog(app, h, rec_box[0])
        return f

    def nth(lst, i):
        return lst[i] if i < len(lst) else None
    if case['peek']:
        def peek():
            rec_box[0].ev.append(['hookB', 0])
            app.response.headers['X-Peek'] = dump_response(app.response)
        app.add_hook('before_request', peek)
    for i in range(3):
        app.add_hook('before_request', interp('hookB', i, lambda c, i=i: nth(c['before'], i)))
    for j in range(3):
        app.add_hook('after_request', interp('hookA', j, lambda c, j=j: nth(c['after'], j)))
    handler = interp('handler', None, lambda c: c['routing']['h'])
    app.route('/h/a/<x:path>', method='ANY', callback=handler)
    for v in ('POST', 'PUT', 'DELETE', 'GET'):
        app.route('/m/<x:path>', method=v, callback=lambda **kw: 'unreachable')
    app.route('/n/<id:int>', method='ANY', callback=lambda **kw: 'n')
    for i, hr in enumerate(['/h', '/h/a']):
        app.on_route(hr, interp('rhook', i, lambda c, i=i: nth(c['routing'].get('rhooks', []), i)))
    app.error(404, rule='/nf')(interp('handler', None, lambda c: c['routing'].get('partial')))
    for code, spec in case['eh']:
        def eh(err, spec=spec):
            if spec['k'] == 'const':
                return c3.build(spec['o'], rec_box[0])
            if spec['k'] == 'body':
                return err.body
            if spec['k'] == 'same':
                return err
            raise c3.Boom('eh')
        app.error(code)(eh)
    orig = app.to_route

    def to_route(path, verb):
        rec_box[0].ev.append(['routed'])
        return orig(path, verb)
    app.to_route = to_route
    return app


def serve_one(app, req, rec_box, streams):
    rec = c3.Rec()
    rec_box[0] = rec
    env = make_environ(req, streams)
    obs = c3.validated_call(app, env, rec)
    del env
    return dict(events=[e for e in obs['events'] if e[0] not in ('next', 'read')], escaped=obs['escaped'] is not None,
                problems=obs['problems'])


def tb_owners(err):
    out = []
    tb = err.__traceback__
    while tb is not None:
        if tb.tb_frame.f_code.co_name == '_handle':
            env = tb.tb_frame.f_locals.get('environ')
            out.append(env.get('x.req_id') if env is not None else None)
        tb = tb.tb_next
    return out


class _Shared(Exception):
    pass


def run_rule(case):
    """CPython's rule for re-raising one exception instance, without any framework code"""
    exc = _Shared()

    def thrower(owner):
        raise (exc.with_traceback(None) if case['reset'] else exc)

    def catcher(owner):
        try:
            thrower(owner)
        except _Shared:
            pass
    for i in case['ids']:
        catcher(i)
    owners = []
    tb = exc.__traceback__
    while tb is not None:
        if tb.tb_frame.f_code.co_name == 'catcher':
            owners.append(tb.tb_frame.f_locals['owner'])
        tb = tb.tb_next
    return dict(owners=owners)


def in_child(fn):
    """run fn() in a forked child and return its JSON-able result.  The parent never serves a
    request, so every child starts from the state of a process that has only imported ombott:
    module-level and class-level objects (DefaultConfig.errors_map, caches) are pristine."""
    import os
    r, w = os.pipe()
    pid = os.fork()
    if pid == 0:
        code = 0
        try:
            os.close(r)
            try:
                data = json.dumps(dict(out=fn(), cov=c3.wsgi_cov.export() if c3.wsgi_cov.ENABLED else None)).encode()
            except BaseException as e:  # noqa
                data = json.dumps({'child_error': '%s: %s' % (type(e).__name__, str(e)[:200])}).encode()
            with os.fdopen(w, 'wb') as f:
                f.write(data)
        finally:
            os._exit(code)
    os.close(w)
    try:
        with os.fdopen(r, 'rb') as f:
            data = f.read()
    finally:
        try:
            os.kill(pid, 9)
        except OSError:
            pass
        os.waitpid(pid, 0)
    res = json.loads(data) if data else {'child_error': 'no output'}
    if 'out' in res:
        c3.wsgi_cov.merge(res.get('cov'))
        return res['out']
    return res


def run_history(case):
    import ombott.ombott as om
    om.format_exc = lambda *a, **kw: c3.TB_TEXT
    rec_box = [None]
    streams = []
    app = build_app(case, rec_box)
    noise = other_app() if case.get('other_app') else None
    responses = []
    shared = list(app.config.errors_map.values())
    for k, r in enumerate(case['reqs']):
        if noise is not None:
            noise(k)                   # another application of the same process serves something in between
        responses.append(serve_one(app, r, rec_box, streams))
        for e in shared:               # whose exception is the __context__ of a shared error now?
            c = e.__context__
            if c is not None and not hasattr(c, '_verif_owner'):
                try:
                    c._verif_owner = r['id']
                except Exception:
                    pass
    tbs = [tb_owners(e) for e in shared]
    ctx = [getattr(e.__context__, '_verif_owner', -1) if e.__context__ is not None else None for e in shared]
    gc.collect()
    alive = sorted({m().rid for m, _ in streams if m() is not None})
    alive_streams = sorted({w().rid for _, w in streams if w() is not None})
    if case.get('retention'):
        responses = responses[-1:]
    return dict(responses=responses, tb=tbs, ctx=ctx, alive=alive, alive_streams=alive_streams)


def other_app():
    """a second application object in the same process and thread: cookies, headers, custom status
    phrases, error pages and a body error of its own — class- and module-level state is shared with it"""
    from ombott import Ombott, HTTPError
    other = Ombott({'max_body_size': 4})

    @other.route('/o/<k:int>', method='ANY')
    def o(k):
        other.response.set_cookie('other', 'o%d' % k, path='/o')
        other.response.headers['X-Other'] = 'yes'
        other.response.status = '%d Other Phrase' % (520 + k % 3)
        if k % 3 == 0:
            raise HTTPError(520 + k, 'other app')
        if k % 3 == 1:
            return other.request.body.read()
        return 'other'

    def serve(k):
        env = {'REQUEST_METHOD': 'POST', 'PATH_INFO': '/o/%d' % k, 'QUERY_STRING': 'o=1', 'SERVER_NAME': 'other',
               'SERVER_PORT': '81', 'SERVER_PROTOCOL': 'HTTP/1.1', 'wsgi.url_scheme': 'http',
               'wsgi.input': io.BytesIO(b'0123456789'), 'CONTENT_LENGTH': '10', 'wsgi.errors': io.StringIO(),
               'HTTP_ACCEPT': 'application/json' if k % 2 else 'text/html', 'SCRIPT_NAME': ''}
        body = other(env, lambda *a, **kw: None)
        list(body)
        getattr(body, 'close', lambda: None)()
    return serve


def run_fresh(case, r):
    """the same request on a fresh application, in a fresh process, on a fresh thread"""
    import ombott.ombott as om
    om.format_exc = lambda *a, **kw: c3.TB_TEXT
    box = [None]
    fapp = build_app(case, box)
    res = []
    t = threading.Thread(target=lambda: res.append(serve_one(fapp, r, box, [])))
    t.start()
    t.join()
    return res[0] if res else dict(events=[], escaped=True, problems=['thread died'])


def run_impl(case):
    if case['kind'] == 'rule':
        return run_rule(case)
    import ombott  # noqa: the children inherit the imported, unused modules
    if c3.wsgi_cov.ENABLED:
        import os
        c3.wsgi_cov.start(os.environ.get('VERIF_REPO', '/repo'))
    obs = in_child(lambda: run_history(case))
    if 'responses' not in obs:
        return obs
    obs['fresh'] = None
    if not case.get('retention'):
        obs['fresh'] = [in_child(lambda r=r: run_fresh(case, r)) for r in case['reqs']]
    return obs


def project(obs, case):
    if 'responses' not in obs:
        return obs
    # what is alive is judged by the oracle (the model's `alive` is the set that MAY be retained)
    out = dict(responses=[dict(events=r['events'], escaped=r['escaped']) for r in obs['responses']],
               tb=obs['tb'], ctx=obs['ctx'])
    return mask_shared(debug_reduced(out, case), case)


def debug_reduced(out, case):
    """debug=True: the text of the HTML error pages (repr of the exception, traceback) is not modelled; model and
    implementation are compared on the event kinds, status lines and header names, the oracle (history against a
    fresh process) on everything"""
    if not case.get('debug'):
        return out

    def red(e):
        if e[0] == 'start':
            return ['start', e[1], sorted({n for n, _ in e[2]}), e[3]]
        if e[0] == 'body':
            return ['body']
        return e
    return dict(out, responses=[dict(r, events=[red(e) for e in r['events']]) for r in out['responses']])


def mask_shared(out, case):
    """the errors_map instances are class-level: another application's bad bodies re-own their traceback chains,
    so with traffic of another application only the bounds (oracle) are checked, not who exactly is retained"""
    if case.get('other_app'):
        out = dict(out, tb='masked', ctx='masked')
    return out


# --------------------------------------------------------------------------
# codec
# --------------------------------------------------------------------------

BODY_OUTCOME = {
    # body class -> ('ok',) | ('shared', index in errors_map, is _raise called from inside an except block?)
    'ok': ('ok',), 'okchunk': ('ok',), 'json_ok': ('ok',), 'forms_ok': ('ok',), 'urlenc_ok': ('ok',), 'upload': ('ok',),
    'oversize': ('shared', 1, True), 'bigfield': ('shared', 1, True),
    'urlenc_big': ('shared', 1, False), 'json_big': ('shared', 1, False),      # _get_body_string: no except block around
    'badchunk': ('shared', 2, True), 'badjson': ('shared', 2, True), 'noname': ('shared', 2, True),
    # malformed framing headers: a Content-Length int() refuses is a ValueError where the handler first touches the
    # body (today a 500: finding *-content-length-not-int of C05/C12); one int() accepts in an unusual spelling, an
    # empty, negative or huge one, and unusual Transfer-Encoding values are served
    'json_array': ('shared', 2, False),       # POST: 'JSON object expected', raised outside any except block
    'cl_bad': ('crash',), 'cl_odd': ('ok',), 'te_odd': ('ok',), 'te_cl_bad': ('crash',),
}
CL_BAD = ['12, 12', '1e3', '12abc', '0x10', '12.0', 'twelve', '1 2', '--5', '12,', '\xb2']
CL_ODD = [('', 0), ('-5', 0), ('-0', 0), ('99999999999999999999', None), (' 12 ', 12), ('+12', 12), ('1_2', 12), ('012', 12),
          ('\t7\n', 7), ('0', 0)]
TE_ODD = ['chunked, chunked', 'gzip, chunked', 'Chunked', 'CHUNKED', 'chunked;q=1', 'identity, chunked']


def model_case(req):
    """the C03 case whose program the model runs for this request (special handlers resolved by the
    harness from the request data alone), the shared errors raised, and whether the body was consumed"""
    case = req['case']
    raised, replaced = [], False
    rt = case['routing']
    if rt['k'] == 'ok' and rt['h'].get('special'):
        h = rt['h']
        reached = not any(c3.fails(x) for x in case['before']) and not any(c3.fails(x) for x in rt['rhooks'])
        if h['special'] == 'retresp':
            res = dict(k='ret', o=dict(k='falsy', v='estr'))       # iterating it yields nothing: an empty body
        elif h['special'] == 'echo':
            from urllib.parse import parse_qsl
            ck = req.get('cookie') or None
            qs = req.get('qs', '')
            q = dict(parse_qsl(qs, keep_blank_values=True))
            url = 'http://localhost' + quote(req_path(case)) + ('?' + qs if qs else '')
            text = '%s %s %s %s|%s|%s|%s|%s|%s|%s' % (
                case['method'].upper(), req_path(case), qs, ck, ','.join('%s=%s' % (k, q[k]) for k in sorted(q)),
                req.get('xcustom') or '-', req.get('remote') or None, url, bool(req.get('xhr')), ','.join(sorted(q)))
            res = dict(k='ret', o=dict(k='str', s=text))
        else:
            outcome = BODY_OUTCOME[req['body_class']]
            kind = outcome[0]
            if kind == 'ok':
                res = dict(k='ret', o=dict(k='str', s=req['expect']))
                replaced = reached
            elif kind == 'crash':
                # int(environ['CONTENT_LENGTH']) in BodyMixin.content_length: an ordinary exception in the handler
                try:
                    int(req['cl'])
                    raise AssertionError('Content-Length %r is an integer' % req['cl'])
                except ValueError as e:
                    res = dict(k='raise_exc', cls='ValueError', msg=e.args[0])
            else:
                idx, inside = outcome[1], outcome[2]
                _, code, text = SHARED[idx]
                res = dict(k='raise_http', err=True,
                           r=dict(status=code, headers=[], cookies=[], body=dict(k='str', s=text)))
                if reached:
                    raised = [(idx, inside)]
        case = dict(case, routing=dict(rt, h=dict(muts=h.get('muts', []), res=res)))
    return case, raised, replaced


def enc_req(req):
    case, raised, replaced = model_case(req)
    rt = case['routing']
    if rt['k'] == '404':
        r = [0] + ([0] if rt.get('partial') is None else [1] + c3.enc_hprog(rt['partial']))
    elif rt['k'] == 'raise':
        try:
            int('9' * 4301)
            ej = ''
        except ValueError as e:
            ej = json.dumps(repr(e))
        r = [3] + c3.S(ej)
    elif rt['k'] == '405':
        r = [1] + c3.S('DELETE,GET,POST,PUT')
    else:
        r = [2] + enc_list(rt['rhooks'], c3.enc_hprog) + c3.enc_hprog(rt['h'])
    return ([req['id'], int(case['method'] == 'HEAD'), int(case['fw']), int(case['json']), int(replaced),
             int(req['class'] == 'nopath')]
            + c3.S(raw_path_of(req)) + c3.S(url_repr(req))
            + enc_list(case['before'], c3.enc_hprog) + enc_list(case['after'], c3.enc_hprog) + r
            + enc_list(raised, lambda k: [k[0], int(k[1])]))


def encode(case):
    if case['kind'] == 'rule':
        return [3, int(case['reset'])] + list(case['ids'])
    # computing str()/json.dumps() of the handler objects constructs ombott response objects: do it in a
    # child, so that the parent (from which every history and every fresh request is forked) stays pristine
    out = in_child(lambda: dict(enc=_encode(case)))
    if 'enc' not in out:
        raise RuntimeError('encode failed in the child: %s' % out)
    return out['enc']


def _encode(case):
    if case.get('retention'):
        return [4, int(case['peek']), len(SHARED), len(case['reqs'])] + enc_req(case['reqs'][0])
    eh = list({code: (code, spec) for code, spec in case['eh']}.values())
    return ([case.get('variant', 0), int(case['peek']), len(SHARED)] + enc_list(eh, c3.enc_eh)
            + enc_list(case['reqs'], enc_req))


def decode(out, case):
    q = Reader(out)
    if case['kind'] == 'rule':
        return dict(owners=q.list(lambda z: z.int()))
    rs = q.list(lambda z: z.list(c3.dec_event))
    ent = q.list(lambda z: [z.list(lambda y: y.int()), (z.int() if z.bool() else None)])
    tbs, ctx = [e[0] for e in ent], [e[1] for e in ent]
    resp = [dict(events=ev, escaped=False) for ev in rs]
    return mask_shared(debug_reduced(dict(responses=resp, tb=tbs, ctx=ctx), case), case)


# --------------------------------------------------------------------------
# oracle
# --------------------------------------------------------------------------

def oracle(case, obs):
    if case['kind'] == 'rule':
        if case['reset'] and len(obs['owners']) > 1:
            return 'with_traceback(None) before raise left %d raises in the chain' % len(obs['owners'])
        return None
    if obs.get('hang'):
        return 'history did not terminate'
    if 'responses' not in obs:
        return 'harness failure: %s' % obs
    if obs['fresh'] is not None:
        for k, (a, b) in enumerate(zip(obs['responses'], obs['fresh'])):
            if 'events' not in b:
                return 'harness failure in the fresh process: %s' % b
            if a['escaped'] or b['escaped']:
                return 'request %d: an exception escaped Ombott.__call__' % k
            if a['events'] != b['events']:
                da = next((x for x, y in zip(a['events'] + [None], b['events'] + [None]) if x != y), None)
                db = next((y for x, y in zip(a['events'] + [None], b['events'] + [None]) if x != y), None)
                return ('request %d answered differently after this history than by a fresh application: %s vs %s'
                        % (k, str(da)[:160], str(db)[:160]))
    # the property: what stays alive is bounded by a constant independent of the length of the history.
    # The constant: the last request + per shared errors_map instance the request in its __traceback__ and the
    # request whose exception is its __context__
    bound = 1 + 2 * len(SHARED)
    for what, key_ in (('environs', 'alive'), ('input streams', 'alive_streams')):
        if len(obs.get(key_, [])) > bound:
            return '%d %s alive after %d requests (bound %d)' % (len(obs[key_]), what, len(case['reqs']), bound)
    if not case.get('other_app'):
        # the request cell holds the last request that reached request.__init__ (one without PATH_INFO does not)
        reached = [r['id'] for r in case['reqs'] if r['class'] != 'nopath']
        allowed = set(reached[-1:]) | {o for owners in obs['tb'] for o in owners} | {c for c in obs['ctx'] if c is not None}
        for what, key_ in (('environ', 'alive'), ('input stream', 'alive_streams')):
            extra = [i for i in obs.get(key_, []) if i not in allowed]
            if extra:
                return ('the %s of request %s is still alive although it is neither the last request nor referred to by '
                        'the traceback or the context of a shared error' % (what, extra))
    for i, owners in enumerate(obs['tb']):
        if owners == 'm':
            continue
        if len(set(owners)) > 1 or len(owners) > 1:
            return 'traceback chain of shared error %d holds frames of %d raises' % (i, len(owners))
    return None


# --------------------------------------------------------------------------
# generators
# --------------------------------------------------------------------------

def plain(o, **kw):
    d = c3.ret(o)
    d['routing'] = dict(k='ok', rhooks=[], h=dict(muts=[], res=dict(k='ret', o=o)))
    d.update(kw)
    return d


def special(kind, **kw):
    d = c3.ret(dict(k='falsy', v='none'), **kw)
    d['routing'] = dict(k='ok', rhooks=[], h=dict(muts=[], res=dict(k='ret', o=dict(k='falsy', v='none')),
                                                  special=kind))
    return d


ODD_METHODS = ['GE"T', '(GET)', 'P@TCH', 'GET /x', 'G\tET', '', ' ', 'get', 'PROPFIND', 'H\xc9AD', '{}', 'GET,POST', 'M-SEARCH']


def retresp(muts, **kw):
    """the handler changes the response object and returns that object itself"""
    d = c3.ret(dict(k='falsy', v='none'), **kw)
    d['routing'] = dict(k='ok', rhooks=[], h=dict(muts=[m for m in muts if m['m'] != 'bad'],
                                                  res=dict(k='ret', o=dict(k='falsy', v='none')), special='retresp'))
    return d


BODY_CLASSES = sorted(BODY_OUTCOME)


def _mp(parts):
    return ('--B\r\n' + '--B\r\n'.join(parts) + '--B--\r\n').encode()


def body_request(rng, rid, cls, secret=None):
    """a request whose handler reads the body through request.body / request.json / request.forms;
    `secret` = text that belongs to this request only (it must never show up in another response)"""
    secret = secret or 'req%d-%04x' % (rid, rng.randrange(1 << 16))
    req = dict(id=rid, qs='', cookie='', **{'class': 'body', 'body_class': cls})
    how = 'body'
    if cls == 'ok':
        n = rng.randrange(0, 41)
        req.update(body=[rng.randrange(256) for _ in range(n)], expect=str(n))
    elif cls == 'oversize':
        n = rng.randrange(MAX_BODY + 1, MAX_BODY + 30)
        req.update(body=[rng.randrange(256) for _ in range(n)])
    elif cls == 'okchunk':
        data = [rng.randrange(97, 123) for _ in range(rng.randrange(0, 41))]
        wire = (b'%x\r\n' % len(data) + bytes(data) + b'\r\n' if data else b'') + b'0\r\n\r\n'
        req.update(body=list(wire), expect=str(len(data)), chunked=True)
    elif cls == 'badchunk':
        req.update(body=list(rng.choice([b'zz\r\nabc', b'5\r\nab', b'', b'3;x\r\nabcXX'])), chunked=True)
    elif cls == 'json_ok':
        doc = {'a': rng.randrange(100), 'b': [secret]}
        how = 'json'
        req.update(body=list(json.dumps(doc).encode()), ctype='application/json',
                   expect='json:' + json.dumps(doc, sort_keys=True))
    elif cls == 'badjson':
        how = 'json'
        req.update(body=list(('{"token": "%s"' % secret).encode()), ctype='application/json; charset=utf-8')
    elif cls == 'json_array':
        how = 'forms'
        req.update(body=list(json.dumps([secret, 1]).encode()), ctype='application/json')
    elif cls == 'json_big':
        how = 'json'
        req.update(body=list(json.dumps({'token': secret, 'pad': 'x' * MEMFILE}).encode()), ctype='application/json')
    elif cls == 'forms_ok':
        how = 'forms'
        req.update(body=list(_mp(['Content-Disposition: form-data; name="x"\r\n\r\n%s\r\n' % secret,
                                  'Content-Disposition: form-data; name="y"\r\n\r\nv2\r\n'])),
                   ctype='multipart/form-data; boundary=B', expect='x,y')
    elif cls == 'upload':
        # file uploads whose parts carry optional headers or not (Content-Type, X-Tag) + plain fields
        how = 'upload'
        parts = []
        for k in range(rng.choice([1, 1, 2])):
            hs = []
            if rng.random() < 0.5:
                hs.append(['Content-Type', rng.choice(['text/plain', 'image/png', 'application/x-%s' % secret])])
            if rng.random() < 0.4:
                hs.append(['X-Tag', 'tag-%s' % secret])
            parts.append(dict(name='f%d' % k, filename=rng.choice(['a.txt', 'b.bin', '%s.dat' % secret]), headers=hs,
                              data='D' * rng.randrange(0, 12)))
        if rng.random() < 0.5:
            parts.append(dict(name='note', data=secret))
        req.update(body=list(upload_body(parts)), ctype='multipart/form-data; boundary=B', expect=expected_uploads(parts),
                   parts=parts)
    elif cls == 'noname':
        how = 'forms'
        req.update(body=list(_mp(['Content-Disposition: form-data\r\nX-Upload-Token: %s\r\n\r\npayload\r\n' % secret])),
                   ctype='multipart/form-data; boundary=B')
    elif cls == 'bigfield':
        how = 'forms'
        req.update(body=list(_mp(['Content-Disposition: form-data; name="%s"\r\n\r\n%s\r\n' % (secret, 'v' * (MEMFILE + 20))])),
                   ctype='multipart/form-data; boundary=B')
    elif cls == 'urlenc_ok':
        how = 'forms'
        req.update(body=list(('a=%s&b=2' % secret).encode()), ctype='application/x-www-form-urlencoded', expect='a,b')
    elif cls == 'urlenc_big':
        how = 'forms'
        req.update(body=list(('a=%s&b=' % secret).encode() + b'x' * MEMFILE), ctype='application/x-www-form-urlencoded')
    elif cls == 'cl_bad':
        req.update(body=list(b'hello world!'), cl=rng.choice(CL_BAD))
    elif cls == 'te_cl_bad':
        # content_length is evaluated although the body is chunked
        req.update(body=list(b'3\r\nabc\r\n0\r\n\r\n'), te=rng.choice(['chunked'] + TE_ODD), cl=rng.choice(CL_BAD))
    elif cls == 'cl_odd':
        data = [rng.randrange(97, 123) for _ in range(12)]
        cl, n = rng.choice(CL_ODD)
        req.update(body=data, cl=cl, expect=str(len(data) if n is None else n))
    elif cls == 'te_odd':
        data = [rng.randrange(97, 123) for _ in range(rng.randrange(1, 30))]
        req.update(body=list(b'%x\r\n' % len(data) + bytes(data) + b'\r\n0\r\n\r\n'), te=rng.choice(TE_ODD),
                   expect=str(len(data)))
        if rng.random() < 0.5:
            req['cl'] = rng.choice(['5', '', '0'])         # a Content-Length next to it does not count
    else:
        raise ValueError(cls)
    if rng.random() < 0.4:
        req['short'] = rng.choice([1, 2, 3, 7])
    req['case'] = special(how, method='POST', json=rng.random() < 0.3)
    return req


def g_request(rng, rid):
    r = rng.random()
    req = dict(id=rid, qs=rng.choice(['', '', 'a=1', 'q=<x>&y=%22', 'a=2&b=']), cookie=rng.choice(['', '', 'v1', 'zz']),
               xcustom=rng.choice(['', 'c%d' % rid]), remote=rng.choice(['', '10.0.0.%d' % (rid % 250)]),
               xhr=rng.random() < 0.3)
    if rng.random() < 0.08:
        req.update({'class': 'retresp', 'case': retresp(c3.g_muts(rng, c3.Ctx(rng, False)),
                                                        method=rng.choice(['GET', 'POST', 'HEAD']), json=rng.random() < 0.3)})
        return req
    if rng.random() < 0.07:
        # no PATH_INFO key at all: _handle fails before request.__init__, the last-resort page answers
        req.update({'class': 'nopath', 'case': plain(dict(k='falsy', v='none'), method=rng.choice(['GET', 'HEAD', 'POST']),
                                                     json=rng.random() < 0.3)})
        return req
    if r < 0.12:
        req.update({'class': 'badpath', 'bad': rng.choice(['utf8', 'latin1', 'trunc']),
                    'case': plain(dict(k='falsy', v='none'), method=rng.choice(['GET', 'HEAD', 'POST']),
                                  json=rng.random() < 0.3)})
        return req
    if r < 0.36:
        b = body_request(rng, rid, rng.choice(BODY_CLASSES))
        b['case']['before'] = [c3.g_hook(c3.Ctx(rng, False)) for _ in range(rng.choice([0, 0, 1]))]
        return dict(req, **{k: v for k, v in b.items() if k not in ('qs', 'cookie')})
    if r < 0.40:
        # the router itself raises: an int wildcard with more digits than int() accepts
        req.update({'class': 'routerboom', 'case': dict(plain(dict(k='falsy', v='none'), method=rng.choice(['GET', 'POST']),
                                                             json=rng.random() < 0.3), routing=dict(k='raise'))})
        return req
    if r < 0.48:
        req.update({'class': 'echo', 'case': special('echo', method=rng.choice(['GET', 'POST', 'HEAD']),
                                                     path=rng.choice(['plain', 'special']))})
        return req
    case = c3.g_case(rng, edits=False)
    case['eh'] = []
    if case['routing']['k'] == 'ok':
        case['routing']['reg'] = 'ANY'
    if case['routing']['k'] == '405':
        case['method'] = rng.choice(['PATCH', 'OPTIONS'])
    if rng.random() < 0.1:
        # a method string that is no RFC 7230 token: for the framework just another verb that is not HEAD
        case['method'] = rng.choice(ODD_METHODS)
    req.update({'class': case['routing']['k'], 'case': case})
    return req


def g_history(rng, n=None):
    n = n or rng.choice([1, 2, 2, 3, 3, 4, 5, 8])
    eh = []
    if rng.random() < 0.25:
        c = c3.Ctx(rng, False)
        for _ in range(rng.choice([1, 2])):
            code = rng.choice([404, 405, 500, 400, 413])
            k = rng.choice(['const', 'body', 'raise'])
            eh.append([code, dict(k='const', o=c3.g_out(c, 1, allow=('falsy', 'str', 'bytes', 'http'))) if k == 'const'
                       else dict(k=k)])
    return dict(kind='history', peek=rng.random() < 0.6, eh=eh, reqs=[g_request(rng, i) for i in range(n)],
                other_app=rng.random() < 0.3, cfg_via=rng.choice(['ctor', 'setup']), debug=rng.random() < 0.15)


def retention_case(cls, n):
    reqs = []
    for i in range(n):
        req = dict(id=i, qs='', cookie='')
        if cls in ('oversize', 'badchunk', 'okbody', 'badjson', 'noname', 'bigfield'):
            import random
            b = body_request(random.Random('%s/%d' % (cls, 0)), i, 'ok' if cls == 'okbody' else cls, secret='s')
            b.pop('short', None)
            b['case']['json'] = False
            req = b
        elif cls == 'badpath':
            req.update({'class': 'badpath', 'bad': 'utf8', 'case': plain(dict(k='falsy', v='none'))})
        elif cls == 'nopath':
            req.update({'class': 'nopath', 'case': plain(dict(k='falsy', v='none'))})
        elif cls == 'routerboom':
            req.update({'class': 'routerboom', 'case': dict(plain(dict(k='falsy', v='none')), routing=dict(k='raise'))})
        elif cls == 'crash':
            req.update({'class': 'ok', 'case': dict(plain(dict(k='falsy', v='none')),
                                                    routing=dict(k='ok', rhooks=[], h=dict(muts=[], res=dict(k='raise_exc'))))})
        elif cls == '404':
            req.update({'class': '404', 'case': dict(plain(dict(k='falsy', v='none')), routing=dict(k='404', partial=None))})
        elif cls == '405':
            req.update({'class': '405', 'case': dict(plain(dict(k='falsy', v='none')), routing=dict(k='405'),
                                                    method='PATCH')})
        elif cls == 'cookie':
            req.update({'class': 'ok', 'case': dict(plain(dict(k='str', s='ok')),
                                                    routing=dict(k='ok', rhooks=[],
                                                                 h=dict(muts=[dict(m='cookie', n='sid', v='v1')],
                                                                        res=dict(k='ret', o=dict(k='str', s='ok')))))})
        else:
            raise ValueError(cls)
        reqs.append(req)
    return dict(kind='history', peek=False, eh=[], reqs=reqs, retention=cls)


RET_CLASSES = ['oversize', 'badchunk', 'okbody', 'badjson', 'noname', 'bigfield', 'badpath', 'crash', '404', '405', 'cookie',
               'routerboom', 'nopath']


def _req(rid, case, **kw):
    d = dict(id=rid, qs='', cookie='', case=case)
    d['class'] = case['routing']['k']
    d.update(kw)
    return d


def corpus():
    hello = dict(k='str', s='hello')
    cookie = dict(plain(hello), routing=dict(k='ok', rhooks=[], h=dict(
        muts=[dict(m='cookie', n='sid', v='v1'), dict(m='set', n='X-A', v='v'), dict(m='status', v=201)],
        res=dict(k='ret', o=hello))))
    bad = dict(id=1, qs='', cookie='', **{'class': 'badpath', 'bad': 'utf8', 'case': plain(dict(k='falsy', v='none'))})
    cs = []
    # F11: cookie, then undecodable path; undecodable path first (fresh thread)
    cs.append(dict(kind='history', peek=False, eh=[], reqs=[_req(0, cookie, qs='secret=1'), bad]))
    cs.append(dict(kind='history', peek=True, eh=[], reqs=[dict(bad, id=0), _req(1, cookie), dict(bad, id=2, bad='latin1')]))
    cs.append(dict(kind='history', peek=True, eh=[], reqs=[_req(0, cookie), _req(1, plain(hello)),
                                                           _req(2, dict(plain(hello), routing=dict(k='404', partial=None))),
                                                           _req(3, dict(plain(hello), routing=dict(k='405'), method='PATCH'))]))
    # F12: small retention histories
    for cls in RET_CLASSES:
        cs.append(retention_case(cls, 10))
    over = retention_case('oversize', 3)['reqs']
    # a status code http.client does not list: custom phrase first, number later, and the reverse order
    # (seeded change: the status setter memoises such lines in the module-level table)
    def st_case(status, how):
        if how == 'mut':
            h = dict(muts=[dict(m='status', v=status)], res=dict(k='ret', o=hello))
        elif how == 'raise':
            h = dict(muts=[], res=dict(k='raise_http', err=True,
                                       r=dict(status=status, headers=[], cookies=[], body=dict(k='str', s='x'))))
        else:
            h = dict(muts=[], res=dict(k='ret', o=dict(k='http', err=False, r=dict(status=status, headers=[], cookies=[],
                                                                                   body=hello))))
        return dict(plain(hello), routing=dict(k='ok', rhooks=[], h=h))
    for a, b in (('520 Origin Unreachable', 520), (520, '520 Origin Unreachable'), ('999 Nine', 999)):
        for how1 in ('mut', 'raise'):
            for how2 in ('mut', 'raise', 'resp'):
                cs.append(dict(kind='history', peek=False, eh=[],
                               reqs=[_req(0, st_case(a, how1)), _req(1, st_case(b, how2)), _req(2, st_case(a, how2))]))
    import random
    rr = random.Random('corpus')
    # header values of non-str types that compare equal (1 == 1.0 == True, 0 == 0.0 == False) in different requests
    # (seeded change: _hval memoised with functools.lru_cache)
    def hv(n, v, how='set'):
        return dict(plain(hello), routing=dict(k='ok', rhooks=[], h=dict(muts=[dict(m=how, n=n, v=v)], res=dict(k='ret', o=hello))))
    for a, b, c_ in ((1.0, True, 1), (True, 1.0, 1), (1, True, 1.0), (0, False, 0.0), (False, 0.0, 0), (2.0, 2, 2.0)):
        cs.append(dict(kind='history', peek=False, eh=[],
                       reqs=[_req(0, hv('X-Sample-Rate', a)), _req(1, hv('X-Cache-Hit', b, 'add')), _req(2, hv('X-Count', c_))]))
    # uploads: a part with Content-Type / X-Tag, then a part without (seeded change: FieldStorage.headers class-level dict)
    def up(rid, parts):
        b = body_request(rr, rid, 'upload')
        b.update(body=list(upload_body(parts)), expect=expected_uploads(parts), parts=parts)
        b.pop('short', None)
        return b
    with_h = [dict(name='f0', filename='a.txt', headers=[['Content-Type', 'text/x-alice'], ['X-Tag', 'alice-tag']], data='DATA')]
    without = [dict(name='f0', filename='b.bin', headers=[], data='DD')]
    cs.append(dict(kind='history', peek=False, eh=[], reqs=[up(0, with_h), up(1, without), up(2, with_h)]))
    cs.append(dict(kind='history', peek=True, eh=[], reqs=[up(0, without), up(1, with_h + [dict(name='note', data='n')]), up(2, without)]))
    cs.append(dict(kind='history', peek=False, eh=[],
                   reqs=[up(0, [dict(name='f0', filename='x', headers=[['Content-Type', 'a/b']], data='1'),
                                dict(name='f1', filename='y', headers=[], data='22')])]))
    # a body error WITH a message, later one WITHOUT a message mapped to the same errors_map instance
    # (seeded change: _raise copies err.args[0] into the shared instance's body)
    for first, second in (('noname', 'badchunk'), ('badjson', 'badchunk'), ('bigfield', 'oversize'),
                          ('urlenc_big', 'oversize'), ('badchunk', 'noname'), ('badjson', 'noname')):
        for js in (False, True):
            a = body_request(rr, 0, first, secret='alice-secret-7f3a')
            b = body_request(rr, 2, second, secret='bob')
            b['case']['json'] = js
            cs.append(dict(kind='history', peek=False, eh=[], reqs=[a, _req(1, plain(hello)), b]))
    for cls in BODY_CLASSES:
        cs.append(dict(kind='history', peek=True, eh=[], reqs=[body_request(rr, 0, cls), body_request(rr, 1, cls)]))
    # F12b: a shared error raised from inside an except block (its __context__ = this request's exception), then
    # from outside one (urlencoded body over max_memfile_size): the first request must not stay alive
    for first in ('bigfield', 'oversize', 'noname'):
        for second in ('urlenc_big', 'badjson'):
            cs.append(dict(kind='history', peek=False, eh=[],
                           reqs=[body_request(rr, 0, first), body_request(rr, 1, second), _req(2, plain(hello))]))
    # the router itself raises (int() limit) right after a request that set cookies / headers / status
    # (seeded change: route resolution moved in front of response.__init__())
    boom = dict(plain(dict(k='falsy', v='none')), routing=dict(k='raise'))
    for js in (False, True):
        cs.append(dict(kind='history', peek=False, eh=[],
                       reqs=[_req(0, cookie), dict(_req(1, dict(boom, json=js)), **{'class': 'routerboom'}),
                             _req(2, plain(hello))]))
    cs.append(dict(kind='history', peek=True, eh=[], reqs=[dict(_req(0, boom), **{'class': 'routerboom'}), _req(1, cookie),
                                                           dict(_req(2, dict(boom, method='POST')), **{'class': 'routerboom'})]))
    for flags in (dict(other_app=True), dict(cfg_via='setup'), dict(other_app=True, cfg_via='setup', peek=True)):
        base = dict(kind='history', peek=False, eh=[],
                    reqs=[_req(0, cookie), dict(over[0], id=1, short=3), dict(bad, id=2),
                          dict(retention_case('badchunk', 1)['reqs'][0], id=3, short=1),
                          dict(retention_case('okbody', 1)['reqs'][0], id=4, short=1), _req(5, st_case(520, 'raise'))])
        base.update(flags)
        cs.append(base)
    # an environ without PATH_INFO: _handle raises before request.__init__(environ); the last-resort page must be made
    # from this request's environ, whatever the thread served before (a GET / HEAD / POST with its own path and cookies)
    # (seeded change: the page and the HEAD test read app.request, which still holds the previous request)
    def nopath(rid, method, **kw):
        return dict(id=rid, qs='', cookie='', **{'class': 'nopath', 'case': plain(dict(k='falsy', v='none'), method=method, **kw)})
    special_get = dict(plain(hello), path='special')
    for prev_m in ('GET', 'HEAD', 'POST'):
        for m in ('GET', 'HEAD'):
            cs.append(dict(kind='history', peek=False, eh=[],
                           reqs=[_req(0, dict(special_get, method=prev_m), qs='token=secret'), nopath(1, m)]))
            cs.append(dict(kind='history', peek=True, eh=[],
                           reqs=[_req(0, dict(cookie, method=prev_m)), nopath(1, m, json=True), _req(2, plain(hello))]))
    cs.append(dict(kind='history', peek=False, eh=[], reqs=[nopath(0, 'GET'), nopath(1, 'HEAD'), _req(2, cookie), dict(bad, id=3),
                                                            nopath(4, 'GET'), dict(over[0], id=5), nopath(6, 'HEAD')]))
    # a REQUEST_METHOD that is no token, right after a request that set cookies / headers / status and had its own
    # URL: routed like any verb (handler on an ANY route, 404, 405 with the Allow list), on re-initialised objects
    # (seeded change: such a method is answered 400 at the top of _handle, before request/response.__init__)
    for k, m in enumerate(ODD_METHODS):
        nxt = [plain(hello, method=m, json=bool(k % 2)),
               dict(plain(hello), routing=dict(k='404', partial=None), method=m, json=bool(k % 2)),
               dict(plain(hello), routing=dict(k='405'), method=m, path='special')][k % 3]
        cs.append(dict(kind='history', peek=bool(k % 2), eh=[],
                       reqs=[_req(0, dict(cookie, path='special'), qs='token=secret'), _req(1, nxt), _req(2, dict(nxt, json=True))]))
    # a handler that returns the per-thread response object itself, after requests whose outcome went through
    # HTTPResponse.apply (404, 405, crash, raised / returned response with a body, 400 for a bad path, body error):
    # its body is empty, whatever those left in response.body (seeded change: a reset() that forgets .body)
    rr_ = dict(muts=[], res=dict(k='raise_http', err=False, r=dict(status=201, headers=[], cookies=[],
                                                                   body=dict(k='str', s='earlier body: alice'))))
    earlier = [_req(0, dict(plain(hello), routing=dict(k='404', partial=None))),
               _req(0, dict(plain(hello), routing=dict(k='405'), method='PATCH')),
               _req(0, dict(plain(hello), routing=dict(k='ok', rhooks=[], h=dict(muts=[], res=dict(k='raise_exc'))))),
               _req(0, dict(plain(hello), routing=dict(k='ok', rhooks=[], h=rr_))), _req(0, st_case(520, 'resp')),
               dict(bad, id=0), dict(over[0], id=0), _req(0, cookie)]
    for k, e in enumerate(earlier):
        m = [dict(m='set', n='X-A', v='v'), dict(m='status', v=202)] if k % 2 else []
        r1 = dict(id=1, qs='', cookie='', **{'class': 'retresp', 'case': retresp(m, method='HEAD' if k % 3 == 2 else 'GET')})
        cs.append(dict(kind='history', peek=bool(k % 2), eh=[], reqs=[e, r1, dict(r1, id=2)]))
    cs.append(dict(kind='history', peek=False, eh=[], reqs=[dict(r1, id=0)]))
    # debug=True: the error pages show the exception.  Body errors of the same mapped class raised from inside an
    # except block (their __context__ is this request's exception, e.g. the multipart error quoting its part headers)
    # and from outside one (a raise there leaves __context__ as it is), in both orders: every page is the fresh one
    # (seeded change: the debug page shows err.__context__ when the error has no .exception)
    inside = ['noname', 'badjson', 'badchunk', 'bigfield', 'oversize']
    outside = ['json_array', 'urlenc_big', 'json_big']
    import random as _random
    for a in inside:
        for b in outside:
            for order in ((0, 1) if a in ('noname', 'badjson', 'oversize') else (0,)):
                rr2 = _random.Random('%s/%s' % (a, b))
                x = body_request(rr2, 0, a, secret='alice-secret-7f3a')
                y = body_request(rr2, 1, b, secret='bob')
                x['case']['json'] = y['case']['json'] = False
                first, second = (x, y) if order == 0 else (dict(y, id=0), dict(x, id=1))
                cs.append(dict(kind='history', peek=False, eh=[], debug=True, reqs=[first, second]))
    for a in inside[:3]:
        rr2 = _random.Random('dbg3' + a)
        x = body_request(rr2, 0, a, secret='alice-secret-7f3a')
        y = body_request(rr2, 2, 'json_array', secret='bob')
        x['case']['json'] = y['case']['json'] = False
        cs.append(dict(kind='history', peek=True, eh=[], debug=True, reqs=[x, _req(1, plain(hello)), y,
                                                                           dict(_req(3, dict(boom, json=False)), **{'class': 'routerboom'})]))
    # malformed framing headers right after a request that set cookies / headers / a status: whatever the answer is
    # (today a 500 for a Content-Length int() refuses), it is the fresh application's and carries nothing of the
    # earlier request (seeded change: a 400 raised inside request.__init__, i.e. before response.__init__())
    import random
    for k, cl in enumerate(CL_BAD):
        for js in (k % 2 == 1,):
            b = body_request(random.Random('clbad'), 1, 'cl_bad')
            b.update(cl=cl)
            b.pop('short', None)
            b['case']['json'] = js
            cs.append(dict(kind='history', peek=(k % 2 == 0), eh=[], reqs=[_req(0, cookie, qs='secret=1'), b, _req(2, plain(hello))]))
    for cls in ('cl_odd', 'te_odd', 'te_cl_bad'):
        for k in range(3):
            b = body_request(random.Random('%s%d' % (cls, k)), 1, cls)
            cs.append(dict(kind='history', peek=(k % 2 == 0), eh=[], reqs=[_req(0, cookie), b, _req(2, st_case(520, 'raise')),
                                                                         dict(b, id=3)]))
    cs.append(dict(kind='rule', reset=False, ids=[1, 2, 3]))
    cs.append(dict(kind='rule', reset=True, ids=[1, 2, 3]))
    cs.append(dict(kind='history', peek=True, eh=[], reqs=[over[0], _req(1, cookie), dict(retention_case('badchunk', 3)['reqs'][2]),
                                                           dict(over[1], id=3)]))
    return cs


def gen(rng, n):
    for k in (0, 1, 2, 5, 40):
        for reset in (False, True):
            yield dict(kind='rule', reset=reset, ids=[rng.randrange(100) for _ in range(k)])
    for i in range(n):
        yield g_history(rng)
    for cls in RET_CLASSES:
        yield retention_case(cls, 100)
    for cls in ('oversize', 'badchunk', 'badpath'):
        yield retention_case(cls, 1000)


def thorough():
    for cls in ('oversize', 'badchunk'):
        yield retention_case(cls, 5000)


def nontrivial(case, obs):
    if case['kind'] == 'rule':
        return len(case['ids']) > 1
    reqs = case['reqs']
    if len(reqs) < 2:
        return False

    def leaves_state(r):
        if r['class'] in ('badpath', 'body', 'routerboom'):
            return True
        if r['case'].get('path') == 'special' or r['case']['method'] != 'GET':
            return True                # its path / method must not show in a later last-resort page
        found = []
        c3.walk(r['case'], lambda d: found.append(1) if d.get('m') in ('cookie', 'set', 'add', 'status') or d.get('cookies') else None)
        return bool(found)
    return any(leaves_state(r) for r in reqs[:-1])


def key(case):
    return json.dumps(case, sort_keys=True)


def classify(case, obs):
    if case['kind'] == 'rule':
        return 'runtime-rule/%s/%d' % ('reset' if case['reset'] else 'accumulate', len(case['ids']))
    if case.get('retention'):
        return 'retention/%s/%d' % (case['retention'], len(case['reqs']))
    return 'history/%d/%s' % (len(case['reqs']), '+'.join(sorted({r['class'] for r in case['reqs']})))


def shrink(case):
    if case['kind'] == 'rule':
        return
    reqs = case['reqs']
    for i in range(len(reqs)):
        yield dict(case, reqs=reqs[:i] + reqs[i + 1:])
    if case['peek']:
        yield dict(case, peek=False)
    if case['eh']:
        yield dict(case, eh=[])
    for i, r in enumerate(reqs):
        if r['class'] not in ('badpath', 'body', 'echo', 'routerboom', 'nopath', 'retresp'):
            for sc in c3.shrink(r['case']):
                yield dict(case, reqs=reqs[:i] + [dict(r, case=sc)] + reqs[i + 1:])


PREDICATES = {}

API_SURFACE = [
    ('Ombott._handle: request.__init__(environ) / response.__init__()', 'covered by every history; the early return for an '
     'undecodable path by badpath requests (utf8 / non-latin1 / truncated); environ without PATH_INFO (KeyError before '
     'request.__init__, answered by the last-resort page of Ombott.wsgi) by nopath requests after GET / HEAD / POST'),
    ('per-thread cells of Request / Response (ts_props)', 'covered by peek hook (response as handed over) and echo handler (request)'),
    ('HTTPResponse.apply / BaseResponse.__init__', 'covered: cookies/headers/status left by earlier requests, shared instances (C03 pair)'),
    ('DefaultConfig.errors_map + BaseRequest._raise', 'covered by body requests (oversize -> 413, malformed chunked -> 400): traceback '
     'owners and liveness; class-level sharing across applications by other_app traffic'),
    ('config max_body_size via Ombott(config) and Ombott.setup(config)', 'covered by cfg_via'),
    ('status phrases of unlisted codes (module-level _HTTP_STATUS_LINES)', 'covered by custom-phrase/number histories'),
    ('error_render._html_lns (module cache)', 'covered: HTML error pages in every position of a history and in the fresh process'),
    ('filter_factory._filter_cache', 'excluded: holds compiled filters keyed by rule text only (C01)'),
    ('request accessors (query, params, headers, get_cookie, remote_addr, url, is_xhr)', 'covered by the echo handler with '
     'per-request values'),
    ('request.files / FileUpload (content_type, headers, get_header, raw_filename, file)', 'covered by upload requests whose '
     'parts carry optional headers or not, echoed by the handler'),
    ('header values of non-str types equal across requests (1 / 1.0 / True, 0 / 0.0 / False)', 'covered by typed-value histories'),
    ('wsgi.input short reads', 'covered by short= on body requests (framing itself is C04/C05)'),
    ('other applications in the process', 'covered by other_app (responses must not change; exact retention ownership masked)'),
    ('threads', 'excluded: C08; the fresh baseline runs on a fresh thread of a fresh process'),
    ('hook-list edits persisting across requests, handler-owned state', 'excluded: application state, not framework state'),
]

MANIFEST = dict(
    text=('Proof: theorems in coq/props/C09.v (Coq, closed under the global context) about coq/model/History.v (on top of '
          'the C03 model): C09_history_independent — for ALL applications (what hooks/handlers do = arbitrary function of the '
          'current request and of the response object as handed over; arbitrary error handlers), ALL pairs of thread states '
          'and ALL requests (decodable or not, any outcome class of the C03 grammar incl. raises of shared errors_map '
          'entries) the observable response is the same; C09_history_equals_fresh (every response of every history = fresh '
          'application); C09_retention_bounded — after ANY history at most 1 + 2 x |errors_map| requests may be alive (the last one; '
          'per shared error the request in its __traceback__ and the one whose exception is its __context__). The pre-fix '
          'code is kept as variants: C09_F11_bad_path_carryover_refuted, C09_F12_retention_refuted (unbounded). Tied to /repo '
          'by a history correspondence (event traces, traceback owners of the shared errors, weak-reference liveness) and an '
          'oracle comparing every request with a fresh application in a fresh process on a fresh thread.'),
    note=('Partial by nature: CPython reference counting/gc and the traceback mechanics are runtime assumptions, written '
          'into the model (raise_shared / raise_shared_F12) and checked by the correspondence incl. a framework-free '
          'experiment; hook-list edits persisting across requests and handler-owned state are outside the model.'),
    technique='Coq proof (explicit per-thread state, every read preceded by this request\'s write) + history correspondence',
    design_ref='DESIGN.md section 4, C09',
)
