"""dev-only report for the coverage switch of routerC_lib: which statements of the anchored router functions were
executed by the runs whose /tmp/routerC_cov_<ID>.json files are given.
    VERIF_COVERAGE=1 ./check C01 --no-coq ; ... ; /venv/bin/python tools/props/routerC_cov.py C01 C02 C11"""
import ast
import json
import os
import sys

REPO = os.environ.get('VERIF_REPO', '/repo')
# anchored functions (properties.jsonl C01/C02/C11 anchors): whole classes of the router package + the routing part of Ombott
WHOLE = ['ombott/router/radidict.py', 'ombott/router/radirouter.py', 'ombott/router/filter_factory.py',
         'ombott/router/parser.py', 'ombott/router/sym_stream.py']
OMBOTT_FUNCS = ('with_method_shortcuts', 'Ombott.to_route', 'Ombott.add_route', 'Ombott.remove_route', 'Ombott.route',
                'Ombott.routes', 'Ombott.on_route', 'Ombott.remove_route_hook', 'Ombott.error', 'Ombott.handler',
                'Ombott._handle')


def stmts(path, only=None):
    tree = ast.parse(open(os.path.join(REPO, path)).read())
    out = {}

    def visit(node, fn):
        for ch in ast.iter_child_nodes(node):
            name = fn
            if isinstance(ch, (ast.FunctionDef, ast.AsyncFunctionDef)):
                name = ch.name if fn is None else fn + '.' + ch.name
            elif isinstance(ch, ast.ClassDef):
                name = ch.name if fn is None else fn + '.' + ch.name
            if isinstance(ch, ast.stmt) and not isinstance(ch, (ast.FunctionDef, ast.ClassDef, ast.Import, ast.ImportFrom)):
                if fn is not None and not (isinstance(ch, ast.Expr) and isinstance(getattr(ch, 'value', None), ast.Constant)):
                    inside_func = any(True for _ in [0])
                    out[ch.lineno] = fn
            visit(ch, name)
    visit(tree, None)
    if only is not None:
        out = {ln: fn for ln, fn in out.items() if any(fn == o or fn.startswith(o + '.') for o in only)}
    return out


def main(ids):
    hit = {}
    for i in ids:
        d = json.load(open('/tmp/routerC_cov_%s.json' % i))
        for k, v in d.items():
            hit.setdefault(k, set()).update(v)
    tot = cov = 0
    for path in WHOLE + ['ombott/ombott.py']:
        st = stmts(path, OMBOTT_FUNCS if path.endswith('ombott.py') else None)
        # module/class-level statements are executed at import: only count statements inside functions
        st = {ln: fn for ln, fn in st.items() if _in_function(path, ln)}
        h = hit.get(path, set())
        ends = _stmt_heads(path)
        miss = sorted(ln for ln in st if not any(x in h for x in range(ln, ends.get(ln, ln) + 1)))
        tot += len(st)
        cov += len(st) - len(miss)
        print('%-36s %4d/%4d' % (path, len(st) - len(miss), len(st)))
        src = open(os.path.join(REPO, path)).read().split('\n')
        for ln in miss:
            print('     %4d %-34s %s' % (ln, st[ln][-34:], src[ln - 1].strip()[:90]))
    print('TOTAL %d/%d' % (cov, tot))


def _stmt_heads(path):
    """for compound statements: the head spans from its first line to the line before its body (a multi-line
    condition is reported by the tracer on the line of the expression, not of the `if (`)"""
    tree = ast.parse(open(os.path.join(REPO, path)).read())
    out = {}
    for node in ast.walk(tree):
        body = getattr(node, 'body', None)
        if isinstance(node, ast.stmt) and isinstance(body, list) and body and hasattr(body[0], 'lineno'):
            out[node.lineno] = max(node.lineno, body[0].lineno - 1)
        elif isinstance(node, ast.stmt) and getattr(node, 'end_lineno', None):
            out[node.lineno] = node.end_lineno
    return out


_FUNC_LINES = {}


def _in_function(path, ln):
    if path not in _FUNC_LINES:
        tree = ast.parse(open(os.path.join(REPO, path)).read())
        s = set()
        for node in ast.walk(tree):
            if isinstance(node, (ast.FunctionDef, ast.Lambda)):
                body = node.body if isinstance(node.body, list) else [node.body]
                for b in body:
                    for sub in ast.walk(b):
                        if hasattr(sub, 'lineno'):
                            s.add(sub.lineno)
        _FUNC_LINES[path] = s
    return ln in _FUNC_LINES[path]


if __name__ == '__main__':
    main(sys.argv[1:])
