"""Shared harness pieces of cluster routerC (C01, C02, C11): a case is a script
of commands run against a fresh Ombott application; every command yields one
observation.  The same script is encoded for the model (coq/model/Router.v,
corr_router).  Nothing here is used by the theorems."""
import io

from props.common import enc_str, enc_list, Reader, environ

VAL_INT = 0x110000      # tag code points for converted values (never a path character)
VAL_FLOAT = 0x110001
VAL_OTHER = 0x110002


def cps(s):
    return [ord(c) for c in s]


def enc_value(v):
    if isinstance(v, str):
        return cps(v)
    if isinstance(v, bool):
        return [VAL_OTHER] + cps(repr(v))
    if isinstance(v, int):
        return [VAL_INT] + cps(str(v))
    if isinstance(v, float):
        return [VAL_FLOAT] + cps(repr(v))
    return [VAL_OTHER] + cps(repr(v))


# --------------------------------------------------------------------------
# rule parsing through the real parser (the tie for Parser/SymStream)
# --------------------------------------------------------------------------

class Ctx:
    """per-case numbering of rule texts and of compiled filter objects"""

    def __init__(self, case):
        from ombott.router.radirouter import Route
        self.Route = Route
        self.rules = []          # rule texts in order of first appearance
        self.fobjs = []          # filter handler objects in order of first appearance
        self.parsed = {}
        for c in case['cmds']:
            r = c.get('rule')
            if r is not None and r not in self.parsed:
                self.parse(r)

    def parse(self, rule):
        if rule in self.parsed:
            return self.parsed[rule]
        pattern, params, filters, _po, _fo = self.Route.parse_rule(rule)
        fl = []
        for f in filters:
            if f is None:
                fl.append(None)
            else:
                for k, g in enumerate(self.fobjs):
                    if g is f:
                        fl.append(k)
                        break
                else:
                    self.fobjs.append(f)
                    fl.append(len(self.fobjs) - 1)
        self.rules.append(rule)
        self.parsed[rule] = (pattern, list(params), fl)
        return self.parsed[rule]

    def rule_idx(self, rule):
        return self.rules.index(rule) if rule in self.rules else -1


# --------------------------------------------------------------------------
# implementation side
# --------------------------------------------------------------------------

def _route_obs(ctx, router, route, hid_of):
    repr(route)                                    # __repr__ / RouteMethod.__str__ must not raise
    for rm in route._methods.values():
        repr(rm)
    return dict(rule=ctx.rule_idx(route.rule), pattern=cps(route.pattern),
                live=router.routes.get(route.pattern) is route,
                methods=[[cps(m), hid_of(rm.handler), [cps(n) for n in (rm.params or [])]]
                         for m, rm in route._methods.items()],
                metas={m: rm.meta for m, rm in route._methods.items() if rm.meta is not None})


def strip(obs):
    """drop what the model does not carry (RouteMethod.meta) before the comparison"""
    if isinstance(obs, dict):
        return {k: strip(v) for k, v in obs.items() if k != 'metas'}
    if isinstance(obs, list):
        return [strip(v) for v in obs]
    return obs


class App:
    """a fresh application + handler/hook function objects numbered by id"""

    def __init__(self, ctx):
        from ombott import Ombott
        self.ctx = ctx
        self.app = Ombott()
        self.box = {'t': []}      # shared with a clone (see C11._fresh_from) so handlers log to whoever dispatches
        self.fn = {}
        self.fn_id = {}

    def handler(self, h):
        if ('h', h) not in self.fn:
            def f(**kw):
                self.box['t'].append(['handler', h, sorted([cps(k), enc_value(v)] for k, v in kw.items())])
                return 'ok'
            self.fn['h', h] = f
            self.fn_id[id(f)] = h
        return self.fn['h', h]

    def hook(self, h):
        if ('k', h) not in self.fn:
            def f(prefix, values=None):
                if values is None:
                    self.box['t'].append(['hook', h, cps(prefix)])
                    # a route hook's return value means nothing: the inner hooks and the route callback still run
                    return [True, prefix, len(self.box['t']), None][h % 4]
                else:
                    self.box['t'].append(['partial', h, cps(prefix), [enc_value(v) for v in values]])
                    return 'partial'
            self.fn['k', h] = f
            self.fn_id[id(f)] = h
        return self.fn['k', h]

    def key_form(self, c):
        """the forms RadiRouter.__getitem__ accepts for a rule / a pattern"""
        from ombott.router.radirouter import RouteKey
        form = c.get('form')
        if form == 'dict':
            return {'rule': c['rule']}
        if form == 'routekey':
            return RouteKey(c['rule'])
        if form == 'pattern':
            return {'pattern': router_pattern(c['rule'])}
        if form == 'routekey_pattern':
            return RouteKey(pattern=router_pattern(c['rule']))
        return {c['rule']}

    def hid_of(self, f):
        return self.fn_id.get(id(f), -1) if f is not None else None

    # ---- commands ----
    def run(self, c):
        from ombott.router.radidict import RadiDictKeyError, RadiDictError
        from ombott.router.errors import RouteMethodError, RouteBuildError
        from ombott.router.radirouter import HookTypes
        op = c['op']
        app, router = self.app, self.app.router
        try:
            if op == 'add':
                via = c.get('via')
                hd, ow, nm = self.handler(c['h']), bool(c.get('overwrite')), c.get('name')
                meths = iterable_of(c['methods'], c.get('mkind'))
                if c.get('meta') is not None or via == 'router_add':
                    router.add(c['rule'], meths, hd, nm, meta=c.get('meta'), overwrite=ow)
                elif via == 'route_deco':
                    app.route(c['rule'], meths, name=nm, overwrite=ow)(hd)
                elif via == 'route_cb':
                    app.route(c['rule'], meths, hd, name=nm, overwrite=ow)
                elif via == 'shortcut':
                    m = c['methods'] if isinstance(c['methods'], str) else c['methods'][0]
                    getattr(app, m.lower())(c['rule'], callback=hd, name=nm, overwrite=ow)
                elif via == 'shortcut_deco':
                    m = c['methods'] if isinstance(c['methods'], str) else c['methods'][0]
                    getattr(app, m.lower())(c['rule'], name=nm, overwrite=ow)(hd)
                else:
                    app.add_route(c['rule'], meths, hd, nm, overwrite=ow)
            elif op == 'remove':
                app.remove_route(c['rule'])
            elif op == 'remove_name':
                app.remove_route(name=c['name'])
            elif op == 'add_hook':
                via = c.get('via')
                if c.get('partial'):
                    if via == 'error404':
                        app.error(404, c['rule'])(self.hook(c['h']))
                    elif via == 'int':
                        router.add_hook(c['rule'], self.hook(c['h']), hook_type=1)
                    else:
                        router.add_hook(c['rule'], self.hook(c['h']), hook_type=HookTypes.PARTIAL)
                elif via == 'deco':
                    app.on_route(c['rule'])(self.hook(c['h']))
                elif via == 'router':
                    router.add_hook(c['rule'], self.hook(c['h']))
                else:
                    app.on_route(c['rule'], self.hook(c['h']))
            elif op == 'remove_hook':
                app.remove_route_hook(c['rule'])
            elif op == 'remove_method':
                r = router[{c['rule']}]
                if r is not None:
                    r.remove_method(c['methods'])
            elif op == 'remove_via':
                # RouteMethod.remove() on the object obtained from route[verb] / from resolve()
                if c.get('path') is not None:
                    ep, _err = router.resolve(c['path'], [c['verb']])
                    if ep:
                        ep[0].remove()
                else:
                    r = router[{c['rule']}]
                    if r is not None:
                        try:
                            rm = r[c['verb']]
                        except RouteMethodError:
                            rm = None
                        if rm is not None:
                            rm.remove()
            elif op == 'dispatch':
                return self.dispatch(c['path'], c['verb'], c.get('sent'))
            elif op == 'by_name':
                r = router[c['name']]
                return None if r is None else _route_obs(self.ctx, router, r, self.hid_of)
            elif op == 'by_rule':
                r = router[self.key_form(c)]
                return None if r is None else _route_obs(self.ctx, router, r, self.hid_of)
            elif op == 'remove_obj':
                r = router[{c['rule']}]
                if r is not None:
                    router.remove(r)
            elif op == 'route_method':
                r = router[{c['rule']}]
                if r is not None:
                    if c.get('overwrite'):
                        r.set_method(c['methods'], self.handler(c['h']))
                    else:
                        r.add_method(c['methods'], self.handler(c['h']))
            elif op == 'resolve_route':
                r = router.resolve(c['path'])
                return None if r is None else _route_obs(self.ctx, router, r, self.hid_of)
            elif op == 'call_route':
                r = router[{c['rule']}]
                if r is None:
                    return 'noroute'
                self.box['t'] = []
                try:
                    r(c['verb'])
                except RouteMethodError:
                    return 'nomethod'
                calls = self.box['t']
                self.box['t'] = []
                return ['called'] + [x[1] for x in calls if x[0] == 'handler']
            elif op == 'get_hook':
                try:
                    hp = router.get_hook(c['rule'])
                except KeyError:
                    return None
                return [self.hid_of(hp[0]), self.hid_of(hp[1])]
            elif op == 'iter':
                out = []
                for nodes in router.radidict._routes_iter(startswith=c.get('startswith') or None,
                                                          yield_hooks=bool(c.get('yield_hooks'))):
                    n = nodes[-1]
                    out.append([cps(''.join(x[0] for x in nodes[1:])),
                                None if n[7] is None else self.ctx.rule_idx(n[7].rule),
                                None if not n[6] else [self.hid_of(n[6][0]), self.hid_of(n[6][1])]])
                return sorted(out, key=repr)
            elif op == 'listing':
                return dict(
                    routes=[[cps(p), _route_obs(self.ctx, router, r, self.hid_of)] for p, r in app.routes.items()],
                    named=[[cps(n), _route_obs(self.ctx, router, r, self.hid_of)] for n, r in router.named_routes.items()],
                    hooks=[[cps(p), self.hid_of(hp[0]), self.hid_of(hp[1])] for p, hp in router.hooks.items()])
            else:
                raise ValueError(op)
            return 0
        except RadiDictKeyError as e:
            msg = str(e)
            if 'filter mismatch' in msg:
                return 1
            if 'already registered' in msg:
                return 2
            return 3
        except RadiDictError:
            return 8
        except IndexError:
            return 4
        except RouteMethodError:
            return 5
        except RouteBuildError:
            return 6
        except KeyError:
            return 7

    def dispatch(self, path, verb, sent=None):
        """`sent` = {'path', 'verb'}: what the client sends; a before_request hook then rewrites PATH_INFO / REQUEST_METHOD
        to `path` / `verb` — the request as it is AT DISPATCH TIME decides the route"""
        app = self.app
        # direct: Ombott.to_route on the request's own view of path and method
        rp = '/' + path.lstrip('/')
        end_point, err = app.to_route(rp, (verb if verb is not None else 'GET').upper())
        if end_point:
            meth, params, hooks = end_point
            direct = dict(kind=200, rule=self.ctx.rule_idx(meth.route.rule), method=cps(meth.name),
                          h=self.hid_of(meth.handler),
                          kw=sorted([cps(k), enc_value(v)] for k, v in params.items()),
                          hooks=[[p, self.hid_of(hp[0]), self.hid_of(hp[1])] for p, hp in hooks])
        elif err[0] == 405:
            direct = dict(kind=405, allow=cps(err[2]))
        else:
            direct = dict(kind=404, hooks=[[p, self.hid_of(hp[0]), self.hid_of(hp[1])] for p, hp in err[2]['hooks']])
        # through WSGI
        self.box['t'] = []
        got = {}

        def start_response(status, headers, exc_info=None):
            got['status'] = int(status.split()[0])
            got['headers'] = headers
        try:
            pinfo = path.encode('utf8').decode('latin1')
        except UnicodeError:
            return dict(direct=direct, wsgi=dict(status=-1))
        env = environ(verb or 'GET', pinfo)
        if verb is None:
            del env['REQUEST_METHOD']          # Request.method defaults to GET
        if (verb or '').upper() == 'OPTIONS':
            # a CORS preflight is an OPTIONS request like any other: 405 + Allow when the route has no OPTIONS / ANY entry
            env['HTTP_ACCESS_CONTROL_REQUEST_METHOD'] = 'POST'
            env['HTTP_ORIGIN'] = 'https://example.org'
        rewrite = None
        if sent is not None:
            try:
                env['PATH_INFO'] = sent['path'].encode('utf8').decode('latin1')
            except UnicodeError:
                return dict(direct=direct, wsgi=dict(status=-1))
            env['REQUEST_METHOD'] = sent['verb']

            def rewrite():
                e = app.request.environ
                e['PATH_INFO'] = path                  # the decoded form, as _handle leaves it
                if verb is None:
                    e.pop('REQUEST_METHOD', None)
                else:
                    e['REQUEST_METHOD'] = verb
            app.add_hook('before_request', rewrite)
        try:
            body = app(env, start_response)
            for _ in body:
                pass
        finally:
            if rewrite is not None:
                app.remove_hook('before_request', rewrite)
        w = dict(status=got.get('status'), calls=self.box['t'])
        if got.get('status') == 405:
            allow = [v for k, v in got['headers'] if k.lower() == 'allow']
            w['allow'] = cps(allow[0]) if len(allow) == 1 else ['missing-or-duplicate', len(allow)]
        self.box['t'] = []
        return dict(direct=direct, wsgi=w)


MKINDS = ['gen', 'map', 'iter', 'tuple', 'dict_keys', 'set']
STR_KINDS = ['strsub', 'enum', 'httpmethod']         # a verb that is an instance of a SUBCLASS of str


class _StrSub(str):
    pass


def _str_kind(m, kind):
    import enum
    import http
    if kind == 'httpmethod' and hasattr(http, 'HTTPMethod') and m in http.HTTPMethod.__members__:
        return http.HTTPMethod(m)
    if kind == 'enum':
        return enum.Enum('Verb', [('M', m)], type=str).M
    return _StrSub(m)


def iterable_of(methods, kind):
    """the method argument as another kind of iterable (one-shot ones included): the registration must not depend on it"""
    if kind in STR_KINDS:
        return _str_kind(methods, kind) if isinstance(methods, str) else [_str_kind(m, kind) for m in methods]
    if kind is None or not isinstance(methods, list):
        return methods
    if kind == 'gen':
        return (m for m in methods)
    if kind == 'map':
        return map(str, methods)
    if kind == 'iter':
        return iter(methods)
    if kind == 'tuple':
        return tuple(methods)
    if kind == 'dict_keys':
        return dict.fromkeys(methods).keys()
    if kind == 'set':
        return set(methods) if len(methods) == 1 else tuple(methods)      # a set has no order: one element only
    return methods


def router_pattern(rule):
    from ombott.router.radirouter import RadiRouter
    return RadiRouter.to_pattern(rule)


def traced(f, *a):
    return _COV.traced(f, *a) if _COV is not None else f(*a)


def run_script(case):
    return traced(_run_script, case)


def reset_filter_cache():
    """FilterFactory's cache is process-wide: a case flagged fresh_cache starts as a fresh process would (needed to
    see both creation orders of two filter specs in one run)"""
    from ombott.router.filter_factory import FilterFactory
    c = getattr(FilterFactory, '_filter_cache', None)
    if isinstance(c, dict):
        c.clear()
    cc = getattr(FilterFactory.make_filter, 'cache_clear', None)
    if cc is not None:
        cc()


def _run_script(case):
    if case.get('fresh_cache'):
        reset_filter_cache()
    ctx = Ctx(case)
    a = App(ctx)
    twin = case.get('twin')
    if not twin:
        return [a.run(c) for c in case['cmds']]
    # a second application in the same process, operated in between: it must not influence the first one
    b = App(Ctx(dict(cmds=twin)))
    out = []
    for i, c in enumerate(case['cmds']):
        b.run(twin[i % len(twin)])
        out.append(a.run(c))
    return out


# --------------------------------------------------------------------------
# dev-only: VERIF_COVERAGE=1 ./check Cxx --no-coq  -> /tmp/routerC_cov_<ID>.json
# (which lines of the anchored router files the run executes; see tools/props/routerC_cov.py)
# --------------------------------------------------------------------------

class _Coverage:
    FILES = ('ombott/router/radidict.py', 'ombott/router/radirouter.py', 'ombott/router/filter_factory.py',
             'ombott/router/parser.py', 'ombott/router/sym_stream.py', 'ombott/ombott.py')

    def __init__(self):
        import atexit
        self.hit = {}
        atexit.register(self.dump)

    def _local(self, frame, event, arg):
        if event == 'line':
            self.hit[self._cur].add(frame.f_lineno)
        return self._local

    def _global(self, frame, event, arg):
        fn = frame.f_code.co_filename
        for suf in self.FILES:
            if fn.endswith(suf):
                self._cur = suf
                self.hit.setdefault(suf, set()).add(frame.f_lineno)
                return self._local_for(suf)
        return None

    def _local_for(self, suf):
        hit = self.hit.setdefault(suf, set())

        def tr(frame, event, arg):
            if event == 'line':
                hit.add(frame.f_lineno)
            return tr
        return tr

    def traced(self, f, *a):
        import sys
        old = sys.gettrace()
        sys.settrace(self._global)
        try:
            return f(*a)
        finally:
            sys.settrace(old)

    def dump(self):
        import json
        import os
        import sys
        pid = os.path.basename(sys.argv[1]) if len(sys.argv) > 1 else 'X'
        path = '/tmp/routerC_cov_%s.json' % pid
        old = {}
        if os.environ.get('VERIF_COVERAGE') == 'append' and os.path.exists(path):
            old = json.load(open(path))
        for k, v in self.hit.items():
            old[k] = sorted(set(old.get(k, [])) | v)
        with open(path, 'w') as fh:
            json.dump(old, fh)


import os as _os
_COV = _Coverage() if _os.environ.get('VERIF_COVERAGE') else None


# --------------------------------------------------------------------------
# model side: encoding of the script, decoding of the observations
# --------------------------------------------------------------------------

def enc_ofid(f):
    return [0 if f is None else f + 1]


def enc_ostr(s):
    return [0] if s is None else [1] + enc_str(cps(s))


def filter_table(ctx, path):
    sp = path.strip('/')
    tab = []
    for f in ctx.fobjs:
        row = []
        for i in range(len(sp)):
            v, n, sel = f(sp[i:])
            if sel is not None:
                # a rex selector rewrites the remaining path: outside the model; such rules take part in
                # registration / removal / lookup by rule only, no probe path leads to their node
                row.append(None)
                continue
            row.append(None if v is None else (enc_value(v), n))
        tab.append(row)
    return tab


def encode(case):
    if case.get('fresh_cache'):
        reset_filter_cache()
    ctx = Ctx(case)
    out = [len(case['cmds'])]
    for c in case['cmds']:
        op = c['op']
        if op == 'add':
            p, nm, fl = ctx.parse(c['rule'])
            ms = c['methods'] if isinstance(c['methods'], list) else [c['methods']]
            out += ([0, ctx.rule_idx(c['rule'])] + enc_str(cps(p)) + enc_list(nm, lambda n: enc_str(cps(n)))
                    + enc_list(fl, enc_ofid) + enc_list(ms, lambda m: enc_str(cps(m))) + [c['h']]
                    + enc_ostr(c.get('name')) + [1 if c.get('overwrite') else 0])
        elif op == 'remove':
            p, _, _ = ctx.parse(c['rule'])
            out += [1] + enc_str(cps(p))
        elif op == 'remove_name':
            out += [2] + enc_str(cps(c['name']))
        elif op == 'add_hook':
            p, nm, fl = ctx.parse(c['rule'])
            out += ([3] + enc_str(cps(p)) + enc_list(nm, lambda n: enc_str(cps(n))) + enc_list(fl, enc_ofid)
                    + [c['h'], 1 if c.get('partial') else 0])
        elif op == 'remove_hook':
            p, _, _ = ctx.parse(c['rule'])
            out += [4] + enc_str(cps(p))
        elif op == 'remove_method':
            p, _, fl = ctx.parse(c['rule'])
            ms = c['methods'] if isinstance(c['methods'], list) else [c['methods']]
            out += [5] + enc_str(cps(p)) + enc_list(fl, enc_ofid) + enc_list(ms, lambda m: enc_str(cps(m)))
        elif op == 'remove_via':
            # in the model: remove_method([verb]) on the route of that rule (a no-op when the verb is not registered)
            p, _, fl = ctx.parse(c['rule'])
            out += [5] + enc_str(cps(p)) + enc_list(fl, enc_ofid) + enc_list([c['verb']], lambda m: enc_str(cps(m)))
        elif op == 'remove_obj':
            p, _, fl = ctx.parse(c['rule'])
            out += [6] + enc_str(cps(p)) + enc_list(fl, enc_ofid)
        elif op == 'route_method':
            p, _, fl = ctx.parse(c['rule'])
            ms = c['methods'] if isinstance(c['methods'], list) else [c['methods']]
            out += ([7] + enc_str(cps(p)) + enc_list(fl, enc_ofid) + enc_list(ms, lambda m: enc_str(cps(m)))
                    + [c['h'], 1 if c.get('overwrite') else 0])
        elif op == 'resolve_route':
            tab = filter_table(ctx, c['path'])
            out += ([14] + enc_str(cps(c['path']))
                    + enc_list(tab, lambda row: enc_list(
                        row, lambda cell: [0] if cell is None else [1] + enc_str(cell[0]) + [cell[1]])))
        elif op == 'call_route':
            p, _, fl = ctx.parse(c['rule'])
            out += [15] + enc_str(cps(p)) + enc_list(fl, enc_ofid) + enc_str(cps(c['verb']))
        elif op == 'get_hook':
            p, _, _ = ctx.parse(c['rule'])
            out += [16] + enc_str(cps(p))
        elif op == 'iter':
            out += [17] + enc_str(cps(c.get('startswith') or '')) + [1 if c.get('yield_hooks') else 0]
        elif op == 'dispatch':
            tab = filter_table(ctx, c['path'])
            out += ([10] + enc_str(cps(c['path'])) + enc_str(cps(c['verb'] if c['verb'] is not None else 'GET'))
                    + enc_list(tab, lambda row: enc_list(
                        row, lambda cell: [0] if cell is None else [1] + enc_str(cell[0]) + [cell[1]])))
        elif op == 'by_name':
            out += [11] + enc_str(cps(c['name']))
        elif op == 'by_rule':
            p, _, fl = ctx.parse(c['rule'])
            if c.get('form') in ('pattern', 'routekey_pattern'):
                fl = []                       # lookup by pattern: no filter comparison
            out += [12] + enc_str(cps(p)) + enc_list(fl, enc_ofid)
        elif op == 'listing':
            out += [13]
        else:
            raise ValueError(op)
    return out


def _ohid(r):
    return r.int() if r.bool() else None


def _hooklist(r):
    return r.list(lambda q: [q.int(), _ohid(q), _ohid(q)])


def _route(r):
    rule = r.int()
    if rule == -1:
        return dict(corrupt=True)
    pattern = r.str()
    live = r.bool()
    methods = r.list(lambda q: [q.str(), q.int(), q.list(lambda z: z.str())])
    return dict(rule=rule, pattern=pattern, live=live, methods=methods)


def decode(out, case):
    r = Reader(out)
    if out and out[0] == -999:
        return ['bad_input']
    obs = []
    for c in case['cmds']:
        op = c['op']
        if op == 'dispatch':
            tag = r.int()
            if tag == 0:
                hooks = _hooklist(r)
                if r.bool():
                    prefix, h = r.str(), r.int()
                    vals = r.list(lambda q: q.str())
                    w = dict(status=200, calls=[['partial', h, prefix, vals]])
                else:
                    w = dict(status=404, calls=[])
                obs.append(dict(direct=dict(kind=404, hooks=hooks), wsgi=w))
            elif tag == 1:
                a = r.str()
                obs.append(dict(direct=dict(kind=405, allow=a), wsgi=dict(status=405, calls=[], allow=a)))
            elif tag == 2:
                rule = r.int()
                m = r.str()
                h = r.int()
                kw = sorted(r.list(lambda q: [q.str(), q.str()]))
                hooks = _hooklist(r)
                fired = r.list(lambda q: [q.str(), q.int()])
                calls = [['hook', hh, p] for p, hh in fired] + [['handler', h, kw]]
                obs.append(dict(direct=dict(kind=200, rule=rule, method=m, h=h, kw=kw, hooks=hooks),
                                wsgi=dict(status=200, calls=calls)))
            else:
                obs.append(dict(model_tag=tag))
        elif op in ('by_name', 'by_rule', 'resolve_route'):
            obs.append(_route(r) if r.bool() else None)
        elif op == 'call_route':
            tag = r.int()
            obs.append(['called', r.int()] if tag == 1 else 'nomethod' if tag == 0 else 'noroute' if tag == 2 else 'corrupt')
        elif op == 'get_hook':
            obs.append([_ohid(r), _ohid(r)] if r.bool() else None)
        elif op == 'iter':
            items = r.list(lambda q: [q.str(), (q.int() if q.bool() else None), ([_ohid(q), _ohid(q)] if q.bool() else None)])
            obs.append(sorted(items, key=repr))
        elif op == 'listing':
            routes = r.list(lambda q: [q.str(), _route(q)])
            named = r.list(lambda q: [q.str(), _route(q)])
            hooks = r.list(lambda q: [q.str(), _ohid(q), _ohid(q)])
            obs.append(dict(routes=routes, named=named, hooks=hooks))
        else:
            obs.append(r.int())
    if not r.done():
        obs.append('trailing-model-output')
    return obs


# --------------------------------------------------------------------------
# an independent plain matcher (used by the oracles; shares nothing with the model)
# --------------------------------------------------------------------------

def plain_match(pattern, filters, path):
    """left-to-right match of ONE rule (pattern with CR tokens + real filter
    objects) against the whole stripped path -> list of values or None"""
    i, L, k, vals = 0, len(path), 0, []
    for ch in pattern:
        if ch != '\r':
            if i < L and path[i] == ch:
                i += 1
                continue
            return None
        if i >= L:
            return None
        f = filters[k]
        k += 1
        if f is None:
            j = path.find('/', i)
            j = L if j < 0 else j
            vals.append(path[i:j])
            i = j
        else:
            v, n, sel = f(path[i:])
            if v is None:
                return None
            vals.append(v)
            i += n
    return vals if i == L else None


def flat_pattern(pattern, filters):
    out, k = [], 0
    for ch in pattern:
        if ch == '\r':
            out.append(('W', id(filters[k]) if filters[k] is not None else None))
            k += 1
        else:
            out.append(('C', ch))
    return out


def better(a, b):
    """a, b flat patterns; True iff at the first difference a has text and b a wildcard"""
    for x, y in zip(a, b):
        if x == y:
            continue
        return x[0] == 'C' and y[0] == 'W'
    return False


def conflict(a, b):
    """first difference is wildcard vs wildcard (different filters)"""
    for x, y in zip(a, b):
        if x == y:
            continue
        return x[0] == 'W' and y[0] == 'W'
    return False


# --------------------------------------------------------------------------
# generator building blocks
# --------------------------------------------------------------------------

LITS = ['a', 'ab', 'abc', 'abd', 'b', 'a-b', 'x.y', 'foo', 'e', '١٢', 'été', 'api', 'v1']
NAMES = ['x', 'y', 'z', 'id', 'name', '_p']


def wild_text(rng, name, kind, flavour=None, next_is_sep_or_end=True):
    """one wildcard in a random syntax flavour. kind: plain|int|float|re|re0|path"""
    if kind == 'plain':
        opts = ['<%s>' % name, '{%s}' % name]
        if next_is_sep_or_end:
            opts.append(':%s' % name)
        return rng.choice(opts) if flavour is None else opts[flavour % len(opts)]
    if kind in ('int', 'float'):
        opts = ['<%s:%s>' % (name, kind), '<%s.%s>' % (name, kind), '{%s:%s}' % (name, kind), '{%s.%s}' % (name, kind)]
        return rng.choice(opts) if flavour is None else opts[flavour % len(opts)]
    if kind in ('re', 're0'):
        rx = '[a-c]+' if kind == 're' else '[a-c]*'
        opts = ['<%s:re:%s>' % (name, rx), '<%s.re(%s)>' % (name, rx), '{%s.re(%s)}' % (name, rx), '{%s:re:%s}' % (name, rx)]
        return rng.choice(opts) if flavour is None else opts[flavour % len(opts)]
    if kind == 'path':
        opts = ['<%s:path>' % name, '<%s.path()>' % name, '<%s.path>' % name, '{%s:path}' % name]
        return rng.choice(opts) if flavour is None else opts[flavour % len(opts)]
    if kind.startswith('rx:'):
        # regexes that look at their own start / end: the filter must see path[i:] only (matched once at the cursor
        # on the REMAINING text), not the whole path with an offset
        rx = kind[3:]
        opts = ['<%s:re:%s>' % (name, rx), '<%s.re(%s)>' % (name, rx)]
        return rng.choice(opts) if flavour is None else opts[flavour % len(opts)]
    raise ValueError(kind)


# the last two are spelled exactly like the masks of the built-in int / float filters: same regex text, but a `re`
# wildcard hands the TEXT to the handler, int/float hand the converted number (a cache keyed by mask would mix them)
RX_KINDS = ['rx:-?\\d+', 'rx:-?\\d+(\\.\\d+)?', 'rx:^[0-9]+$', 'rx:\\A[a-c]+', 'rx:\\b[a-c]+', 'rx:(?<=/)[0-9]+', 'rx:(?<!x)[a-c]+', 'rx:[a-c]+$',
            'rx:^[a-c]*', 'rx:(?<![0-9])[0-9]+']


def anon_wild_text(rng, kind):
    if kind.startswith('rx:'):
        return '<:re:%s>' % kind[3:]
    if kind == 'plain':
        return ':'
    if kind in ('int', 'float'):
        return rng.choice(['<:%s>' % kind, '{:%s}' % kind])
    if kind == 're':
        return rng.choice(['<:re:[a-c]+>', '<re([a-c]+)>', '{re([a-c]+)}'])
    return '<:path>'


def gen_rule(rng, max_segs=4):
    """-> (rule text, abstract = list of segments, a segment = list of ('L', text) | ('W', name, kind))"""
    nseg = rng.choice([1, 1, 2, 2, 2, 3, 3, 4][:2 * max_segs])
    used = []
    segs = []
    for si in range(nseg):
        r = rng.random()
        if r < 0.45:
            seg = [('L', rng.choice(LITS))]
        elif r < 0.80:
            seg = ['W']
        elif r < 0.87:
            seg = [('L', rng.choice(['a', 'ab', 'v', 'x', '7'])), 'W']
        elif r < 0.93:
            seg = ['W', ('L', rng.choice(['end', '.x', '-']))]
        else:
            seg = ['W', ('L', rng.choice(['-', '.', '_'])), 'W']
        out = []
        for it in seg:
            if it == 'W':
                free = [n for n in NAMES if n not in used]
                kind = rng.choice(['plain', 'plain', 'plain', 'int', 'int', 're', 'float', 'path', 're0'])
                if rng.random() < 0.22:
                    kind = rng.choice(RX_KINDS)
                if rng.random() < 0.12 or not free:
                    out.append(('W', None, kind if kind != 're0' else 're'))
                else:
                    nm = rng.choice(free)
                    used.append(nm)
                    out.append(('W', nm, kind))
            else:
                out.append(it)
        segs.append(out)
    return render_rule(rng, segs), segs


def render_rule(rng, segs, flavour=None):
    parts = []
    for si, seg in enumerate(segs):
        txt = ''
        for k, it in enumerate(seg):
            if it[0] == 'L':
                txt += it[1]
            else:
                last = k == len(seg) - 1
                if it[1] is None:
                    kind = it[2]
                    if kind == 'plain' and not (last and si == len(segs) - 1):
                        # a bare ':' is only accepted by the parser at the very end of the rule
                        txt += '<%s>' % 'q%d%d' % (si, k)
                    else:
                        txt += anon_wild_text(rng, kind)
                else:
                    txt += wild_text(rng, it[1], it[2], flavour, next_is_sep_or_end=last)
        parts.append(txt)
    return '/' + '/'.join(parts)


SAMPLE = {
    'plain': ['v', 'abc', 'ab', '7', 'a b', 'é', '', 'x.y', 'a\rb', '\r', '\n', '\x00', 'A', 'cafe\u0301', 'e\u0301', '\u212b'],
    'int': ['12', '-3', '007', '١٢', '5x', '', '-', '1.5', '12\n', '\n12'],
    'float': ['1.5', '-2', '3.', '.5', '1e3', '٣.٤', '1.5\n'],
    're': ['abc', 'a', 'cab', 'abd', '', 'x', 'abc\n', 'a\nb'],
    're0': ['abc', '', 'x', 'b'],
    # line-boundary characters: '.' does not match LF, '$' tolerates ONE trailing LF
    'path': ['p/q', 'p', 'a/b/c', '', 'p//q', 'p\nq', 'p/q\n', '\n', 'a\n/b', 'p\n\n', 'p\x85q', 'p\u2028q', 'p\x0bq', 'p\x0c', 'p/\x1cq',
             'p\r\nq'],
}


SAMPLE_RX = ['42', '7', 'abc', 'a', 'cab', 'xab', '', '4x', 'b7', '007', '1.50', '-3', '42\n', 'a\nb']


def instantiate(rng, segs):
    parts = []
    for seg in segs:
        txt = ''
        for it in seg:
            if it[0] == 'L':
                txt += it[1]
            else:
                txt += rng.choice(SAMPLE.get(it[2], SAMPLE_RX))
        parts.append(txt)
    return '/' + '/'.join(parts)


def mutate_path(rng, p):
    r = rng.random()
    if r < 0.40:
        return p
    k = rng.randrange(0, len(p) + 1)
    if r < 0.48:
        return p[:k] + '/' + p[k:]
    if r < 0.56:
        return p[:k] + p[k + 1:]
    if r < 0.62:
        return p + '/'
    if r < 0.66:
        return '/' + p
    if r < 0.74:
        return p + rng.choice(['x', '/x', 'c', '/a'])
    if r < 0.80:
        return p[:max(1, k)]
    if r < 0.88:
        return p[:k] + rng.choice(['\r', '\n', '\x00', 'é', '١', '\U0001F600', 'e\u0301', '\u0301', '\u212b', 'A\u030a',
                                   '\u1100\u1161', 'e\u0301']) + p[k:]
    if r < 0.94:
        segs = p.split('/')
        i = rng.randrange(len(segs))
        segs[i] = rng.choice(LITS + ['12', '', '\r'])
        return '/'.join(segs)
    return p.replace('a', 'b', 1)


VERBS = ['GET', 'POST', 'HEAD', 'PUT', 'DELETE', 'PATCH', 'OPTIONS']


def shrink_cmds(case):
    cmds = case['cmds']
    for i in range(len(cmds)):
        yield dict(case, cmds=cmds[:i] + cmds[i + 1:])
    for i, c in enumerate(cmds):
        if c['op'] == 'dispatch' and len(c['path']) > 1:
            for k in range(len(c['path'])):
                yield dict(case, cmds=cmds[:i] + [dict(c, path=c['path'][:k] + c['path'][k + 1:])] + cmds[i + 1:])


STD_VERBS = ('DELETE', 'GET', 'HEAD', 'OPTIONS', 'PATCH', 'POST', 'PUT')


def vary_add(rng, c):
    """the same registration through another public API form (route decorator / callback, method shortcuts,
    RadiRouter.add with meta, a plain str instead of a one-element method list)"""
    c = dict(c)
    ms = c['methods']
    r = rng.random()
    if r < 0.45:
        if isinstance(ms, list) and rng.random() < 0.35:
            c['mkind'] = rng.choice(MKINDS)         # through Ombott.add_route
        return c
    if isinstance(ms, list) and len(ms) == 1 and ms[0] in STD_VERBS and r < 0.65:
        c['via'] = rng.choice(['shortcut', 'shortcut_deco'])
        return c
    if r < 0.8:
        c['via'] = rng.choice(['route_deco', 'route_cb'])
    elif r < 0.92:
        c['via'] = 'router_add'
        c['meta'] = rng.randrange(1, 5)
    if isinstance(ms, list) and len(ms) == 1 and rng.random() < 0.4:
        c['methods'] = ms[0]
        if rng.random() < 0.5:
            c['mkind'] = rng.choice(STR_KINDS)
    elif isinstance(c['methods'], list) and rng.random() < 0.5:
        c['mkind'] = rng.choice(MKINDS + ['strsub', 'enum'])
    return c


def vary_hook(rng, c):
    c = dict(c)
    if c.get('partial'):
        c['via'] = rng.choice([None, 'error404', 'int'])
    else:
        c['via'] = rng.choice([None, 'deco', 'router'])
    return c


# --------------------------------------------------------------------------
# audit (round 4): every public callable / keyword / class-level object of the anchored router code that can
# influence what C01, C02, C11 observe, with the case kind that exercises it
# --------------------------------------------------------------------------
API_SURFACE = [
    # ---- ombott.py
    ('Ombott.add_route(rule, method, handler, name, overwrite)', "covered by op 'add' (default form)"),
    ('Ombott.route(rule, method, callback=None, name, overwrite) decorator and callback forms', "covered by op 'add' via=route_deco / route_cb"),
    ('Ombott.get/post/put/delete/patch/head/options shortcuts (with_method_shortcuts)', "covered by op 'add' via=shortcut (callback=...) / shortcut_deco; a POSITIONAL callback raises TypeError: finding, patch fixes/F_shortcuts.patch"),
    ('Ombott.remove_route(rule=, route_pattern=, name=)', "covered by ops 'remove' (rule, incl. prefix *), 'remove_name'; route_pattern= is the same code path after to_pattern: excluded as redundant"),
    ('Ombott.routes (property)', "covered by probe 'listing'"),
    ('Ombott.on_route(rule, func) / decorator form', "covered by op 'add_hook' via=None / deco"),
    ('Ombott.remove_route_hook(rule)', "covered by op 'remove_hook'"),
    ('Ombott.error(404, rule) -> PARTIAL hook', "covered by op 'add_hook' partial via=error404"),
    ('Ombott.error(code) without rule / error_handlers', "excluded: error-page registry, observed by C03/C20"),
    ('Ombott.to_route(path, verb)', "covered by probe 'dispatch' (direct view)"),
    ('Ombott.handler / _handle / __call__', "covered by probe 'dispatch' (wsgi view: status, Allow, handler kwargs, hooks fired, 404 partial hook)"),
    ('Ombott._handle: undecodable PATH_INFO -> 400', "covered by the C01 smoke check (oracle only; C09 owns the re-initialisation part)"),
    ('Ombott._handle: handler raises -> 500', "excluded: C03"),
    ('environ REQUEST_METHOD case / missing', "case spellings covered (C02 verbs get/Head); missing key excluded: PEP 3333 requires it (wsgi() indexes it)"),
    ('config domain_map / app_name_header (wsgi() rewrites PATH_INFO)', "excluded: not in the anchored functions; path rewriting precedes routing"),
    ('Ombott.add_hook/on/emit (before_request, after_request)', "excluded: request hooks, not route hooks (C03/C09)"),
    # ---- radirouter.py
    ('RadiRouter.add(rule, methods, handler, name, meta=, overwrite=), methods as str or list', "covered by op 'add' via=router_add with meta, methods as plain str"),
    ('RadiRouter.__getitem__: name / {rule} / {"rule":} / {"pattern":} / RouteKey(rule) / RouteKey(pattern=)', "covered by probes 'by_name', 'by_rule' form=set|dict|pattern|routekey|routekey_pattern"),
    ('RadiRouter.__getitem__ misuse: 2-element set, non str/set/dict key, rule and pattern together; RouteKey(rule, pattern)', "covered by C11 oracle _api_misuse (TypeError expected)"),
    ('RadiRouter.remove(route=str | Route object, route_pattern=, name=)', "covered by ops 'remove', 'remove_obj', 'remove_name'"),
    ('RadiRouter.resolve(path, methods) / resolve(path) without methods', "covered by probes 'dispatch' / 'resolve_route'"),
    ('RadiRouter.add_hook(rule, hook, hook_type=SIMPLE|PARTIAL|int) / hook_installer', "covered by op 'add_hook' via=router / int / default; invalid hook type in _api_misuse (ValueError)"),
    ('RadiRouter.get_hook(rule)', "covered by probe 'get_hook' (KeyError -> None)"),
    ('RadiRouter.remove_hook(rule) incl. rule ending in *', "covered by op 'remove_hook' (RadiDictError for *)"),
    ('RadiRouter.routes / named_routes / hooks dicts', "covered by probe 'listing'"),
    ('Route.methods / _methods order, Route.__getitem__, Route.__call__(method)', "covered by probes 'by_rule' (dict order), 'call_route'"),
    ('Route.add_method / set_method / remove_method called directly (str or list, no upper-casing)', "covered by ops 'route_method', 'remove_method'"),
    ('RouteMethod.remove(), .name, .handler, .params, .meta, __call__, __str__/__repr__', "covered by op 'remove_via', dispatch 'method' field + oracle name check, 'by_rule' metas, repr() in every route observation"),
    ('Route.url / pattern_out / filters_out', "excluded: C19"),
    ('Route.parse_rule / Parser / SymStream (class-level Parser replaced by one per rule, 68467a7)', "covered through every registration (rule TEXT goes to the code) + malformed stream + smoke seeds; round trip is C01p"),
    ('FilterFactory.make_filter / filters table / _filter_cache (class-level, shared by all routers)', "covered: int/float/re/path in every flavour; shared cache exercised by the twin-application cases"),
    ('rex filter / selectors ([n] after filter args)', "excluded: selector rewrites the remaining path; outside the property quantifier (DESIGN C01)"),
    # ---- radidict.py
    ('RadiDict.get / _match / _set / _split / _make_route / _mount / remove / _try_merge', "covered by every script (C01 adds, C11 histories incl. the merge-guard family)"),
    ('RadiDict._routes_iter(startswith=, yield_hooks=)', "covered by probe 'iter' (11 prefixes incl. wildcard, partial key, no match)"),
    ('RadiDict(path_sep=, param_token=, is_exclusive=), add(params=list), exclusive wildcards', "excluded from the properties (RadiRouter never uses them); documented failure modes in the C01 smoke check; finding: message formatting raises IndexError"),
    ('RadiDict corruption guards (_split "something went wrong", remove "router seems to be corrupted", _mount "token already here")', "excluded: unreachable — ESplit/EMount impossible is part of proofs/C11_replay.v set_at_acc"),
]
