"""C03a — sub-check of C03: the router and the WSGI layer composed (coq/model/App.v).

A case is a real Ombott application built from a generated script of router
commands (rules in every syntax flavour, several methods per rule, rejected
registrations, SIMPLE and PARTIAL route hooks), before/after hooks, error
handlers and handlers from the C03 grammar (or `echo` handlers that return the
kwargs they were called with), plus one request with a generated path and verb.
The model gets the parsed rules (as routerC's harness does), runs routerC's
router model and then the C03 model, and must reproduce the full recorded trace
of Ombott.__call__ under the PEP 3333 validator of C03.
"""
import html
import io
import json
from urllib.parse import quote

from props.common import enc_str, enc_list, Reader
from props import C03 as c3
from props import routerC_lib as rl

ID = 'C03a'
PROPERTY = 'C03'
COQ_MODEL = 'model.App'
COQ_CORR = 'corr_C03a'
N_QUICK = 1500
N_THOROUGH = 12000
VM_CASES = 30
RULE = ('cases = real Ombott applications from generated router scripts (1-6 rules from routerC\'s rule generator in all '
        'syntax flavours and filters, 1-3 verbs per registration, repeated / conflicting registrations, SIMPLE and '
        'PARTIAL route hooks) + before/after hooks + handlers of the C03 grammar or kwargs-echo handlers + error '
        'handlers; one request per case with a path instantiated from a rule and mutated, any of 7 verbs in any case '
        'spelling, HTML/JSON error pages. non-trivial = at least two rules and the request reaches routing; distinct by '
        'the whole case')
TRUSTED = ['the compiled wildcard filters (Python re + converters) enter the model as a table sampled by the harness on '
           'every suffix of the request path (as in C01); rule parsing is done by the real parser (C01p ties it to its model)',
           'sub-check of C03: inherits the trusted base of tools/props/C03.py']
ASSUMPTIONS = ['decodable PATH_INFO']


def cps(s):
    return [ord(c) for c in s]


def dots(cp_list):
    return '.'.join(str(c) for c in cp_list)


def render_kw(kw):
    return ''.join('%s=%s;' % (dots(cps(k)), dots(rl.enc_value(v))) for k, v in kw)


# --------------------------------------------------------------------------
# implementation side
# --------------------------------------------------------------------------

def spec_of(table, h):
    for hh, s in table:
        if hh == h:
            return s
    return dict(k='prog', p=dict(muts=[], res=dict(k='ret', o=dict(k='falsy', v='none'))))


def build_app(case, rec):
    """-> (app, results of the router commands)"""
    from ombott import Ombott
    from ombott.router.radidict import RadiDictKeyError, RadiDictError
    from ombott.router.errors import RouteMethodError, RouteBuildError
    from ombott.router.radirouter import HookTypes
    dm = case.get('dm')
    if dm:
        cfg = dict(domain_map=lambda host: dict(dm['table']).get(host), app_name_header=dm['header'])
        if dm.get('via') == 'setup':
            app = Ombott()
            app.setup(cfg)
        else:
            app = Ombott(cfg)
    else:
        app = Ombott()
    state = {'rhooks': 0}

    def mk_before_after(tag, i, h):
        def f():
            rec.ev.append([tag, i])
            return c3.run_prog(app, h, rec)
        return f
    app._verif_hooks = {'before_request': {}, 'after_request': {}}
    for i, h in enumerate(case['before']):
        f = app._verif_hooks['before_request'][i] = mk_before_after('hookB', i, h)
        app.add_hook('before_request', f)
    for j, h in enumerate(case['after']):
        f = app._verif_hooks['after_request'][j] = mk_before_after('hookA', j, h)
        app.add_hook('after_request', f)
    handlers, hooks = {}, {}

    def handler(h):
        if h not in handlers:
            def f(**kw):
                rec.ev.append(['handler'])
                s = spec_of(case['handlers'], h)
                if s['k'] == 'echo':
                    # route( ** kwargs): dict order = order of the rule's wildcards
                    return 'kw:' + render_kw(list(kw.items()))
                return c3.run_prog(app, s['p'], rec)
            handlers[h] = f
        return handlers[h]

    def hook(h):
        if h not in hooks:
            def f(prefix, values=None):
                s = spec_of(case['hooks'], h)
                if values is None:
                    rec.ev.append(['rhook', state['rhooks']])
                    state['rhooks'] += 1
                    if s['k'] == 'echo':
                        app.response.headers.append('X-Hook', '%d:%s' % (h, dots(cps(prefix))))
                        return None
                    return c3.run_prog(app, s['p'], rec)
                rec.ev.append(['handler'])
                if s['k'] == 'echo':
                    return 'partial:%s|%s' % (dots(cps(prefix)), ''.join(dots(rl.enc_value(v)) + ';' for v in values))
                return c3.run_prog(app, s['p'], rec)
            hooks[h] = f
        return hooks[h]
    results = []
    for c in case['cmds']:
        try:
            if c['op'] == 'add':
                app.add_route(c['rule'], c['methods'], handler(c['h']), c.get('name'), overwrite=bool(c.get('overwrite')))
            elif c['op'] == 'add_hook':
                if c.get('partial') and c.get('via') == 'error':
                    app.error(404, rule=c['rule'])(hook(c['h']))      # the public way to install a PARTIAL hook
                elif c.get('partial'):
                    app.router.add_hook(c['rule'], hook(c['h']), hook_type=HookTypes.PARTIAL)
                else:
                    app.on_route(c['rule'], hook(c['h']))
            elif c['op'] == 'remove':
                app.remove_route(c['rule'])
            elif c['op'] == 'remove_hook':
                app.remove_route_hook(c['rule'])
            else:
                raise ValueError(c['op'])
            results.append(0)
        except (RadiDictKeyError, RadiDictError, RouteMethodError, RouteBuildError, KeyError, IndexError) as e:
            results.append(type(e).__name__)
    for code, spec in case['eh']:
        def eh(err, spec=spec):
            if spec['k'] == 'const':
                return c3.build(spec['o'], rec)
            if spec['k'] == 'body':
                return err.body
            if spec['k'] == 'same':
                return err
            raise c3.Boom('eh')
        app.error(code)(eh)
    orig = app.to_route

    def to_route(path, verb):
        rec.ev.append(['routed'])
        return orig(path, verb)
    app.to_route = to_route
    return app, results


def make_environ(case):
    rq = case['req']
    env = {
        'REQUEST_METHOD': rq['verb'], 'PATH_INFO': rq['path'].encode('utf8').decode('latin1'), 'QUERY_STRING': '',
        'SERVER_NAME': 'localhost', 'SERVER_PORT': '80', 'SERVER_PROTOCOL': 'HTTP/1.1', 'wsgi.url_scheme': 'http',
        'wsgi.input': io.BytesIO(b''), 'wsgi.errors': io.StringIO(), 'wsgi.version': (1, 0),
        'wsgi.multithread': False, 'wsgi.multiprocess': False, 'wsgi.run_once': False, 'SCRIPT_NAME': '',
    }
    dm = case.get('dm')
    if dm:
        if dm.get('fwd'):
            env['HTTP_X_FORWARDED_HOST'] = dm['host']
            env['HTTP_HOST'] = 'other.example'
        else:
            env['HTTP_HOST'] = dm['host']
    if rq['json']:
        env['HTTP_ACCEPT'] = 'application/json'
    if rq['fw']:
        env['wsgi.file_wrapper'] = c3.RecWrapper
    return env


def run_impl(case):
    if c3.wsgi_cov.ENABLED:
        import os
        c3.wsgi_cov.start(os.environ.get('VERIF_REPO', '/repo'))
    import ombott.ombott as om
    rec = c3.Rec()
    saved = om.format_exc
    om.format_exc = lambda *a, **kw: c3.TB_TEXT
    try:
        app, results = build_app(case, rec)
        obs = c3.validated_call(app, make_environ(case), rec)
        obs['cmds'] = results
        return obs
    finally:
        om.format_exc = saved


def project(obs, case):
    if 'events' not in obs:
        return obs
    return dict(events=[e for e in obs['events'] if e[0] not in ('next', 'read')], escaped=obs['escaped'] is not None)


# --------------------------------------------------------------------------
# codec
# --------------------------------------------------------------------------

def app_name(case):
    dm = case.get('dm')
    return dict(dm['table']).get(dm['host']) if dm else None


def rewrites(case):
    """(path, method) the before_request hooks that run leave in the environ, None where untouched"""
    path = method = None
    for h in case['before']:
        for m in h['muts']:
            if m.get('m') == 'env':
                if m['key'] == 'PATH_INFO':
                    path = m['v']
                else:
                    method = m['v']
        if c3.fails(h):
            break
    return path, method


def effective_path(case):
    """PATH_INFO as routing sees it: after wsgi() prefixed the application name and after the before hooks"""
    p, _ = rewrites(case)
    if p is not None:
        return p
    n = app_name(case)
    return case['req']['path'] if not n else '/' + n + case['req']['path']


def effective_verb(case):
    _, m = rewrites(case)
    return m if m is not None else case['req']['verb']


def url_repr(case):
    """repr(html.escape(request.url)) computed from the environ the way props_mixin does, without ombott"""
    from urllib.parse import urljoin
    path = '/' + effective_path(case).lstrip('/')
    n = app_name(case)
    appname = '/' + n if n else '/'           # environ[config.app_name_header], default '/'
    full = urljoin('/', path[len(appname):].lstrip('/'))
    host = 'localhost'
    dm = case.get('dm')
    if dm:
        host = dm['host']                     # X-Forwarded-Host or Host
    return repr(html.escape('http://' + host + quote(full)))


def enc_fspec(entry):
    h, s = entry
    if s['k'] == 'echo':
        return [h, 0]
    return [h, 1] + c3.enc_hprog(s['p'])


def encode(case):
    script = rl.encode(dict(cmds=case['cmds']))
    ctx = rl.Ctx(dict(cmds=case['cmds']))
    rq = case['req']
    tab = rl.filter_table(ctx, effective_path(case))
    eh = list({code: (code, spec) for code, spec in case['eh']}.values())
    n = app_name(case)
    return (script + ([0] if n is None else [1] + c3.S(n)) + c3.S(rq['path']) + c3.S(rq['verb']) + [int(rq['fw']), int(rq['json'])] + c3.S(url_repr(case))
            + enc_list(tab, lambda row: enc_list(
                row, lambda cell: [0] if cell is None else [1] + enc_str(cell[0]) + [cell[1]]))
            + enc_list(eh, c3.enc_eh) + enc_list(case['before'], c3.enc_hprog) + enc_list(case['after'], c3.enc_hprog)
            + enc_list(case['handlers'], enc_fspec) + enc_list(case['hooks'], enc_fspec))


def decode(out, case):
    q = Reader(out)
    tag = q.int()
    if tag in (0, 1, 2):
        return dict(events=q.list(c3.dec_event), escaped=tag != 0)
    return dict(model_tag=tag)


# --------------------------------------------------------------------------
# oracle: routing facts on the wire, from a plain rule-by-rule matcher
# --------------------------------------------------------------------------

def accepted_rules(case, obs, ctx):
    """[(pattern, filter objects, names, {METHOD: h})] of the registrations the router accepted, merged per rule"""
    rules = []
    for c, res in zip(case['cmds'], obs['cmds']):
        if c['op'] != 'add' or res != 0:
            continue
        pattern, names, fl = ctx.parse(c['rule'])
        fobjs = [None if k is None else ctx.fobjs[k] for k in fl]
        ms = c['methods'] if isinstance(c['methods'], list) else [c['methods']]
        for r in rules:
            if r[0] == pattern and [id(x) for x in r[1]] == [id(x) for x in fobjs]:
                for m in ms:
                    r[3][m.upper()] = (c['h'], names)
                break
        else:
            rules.append((pattern, fobjs, names, {m.upper(): (c['h'], names) for m in ms}))
    return rules


def oracle(case, obs):
    if obs.get('hang'):
        return 'request did not terminate'
    if 'events' not in obs:
        return 'harness failure: %s' % obs
    if obs['escaped']:
        return 'exception %s escaped Ombott.__call__' % obs['escaped']
    ev = obs['events']
    starts = [e for e in ev if e[0] == 'start']
    if len(starts) != 1:
        return 'start_response called %d times' % len(starts)
    if any(c['op'] in ('remove', 'remove_hook') for c in case['cmds']):
        return None        # the plain matcher below only follows registrations
    if any(c3.fails(h) for h in case['before']) or any(c3.fails(h) for h in case['after']) or case['eh']:
        return None
    ctx = rl.Ctx(dict(cmds=case['cmds']))
    rules = accepted_rules(case, obs, ctx)
    sp = effective_path(case).strip('/')
    hits = []
    for r in rules:
        try:
            vals = rl.plain_match(r[0], r[1], sp)
        except Exception:
            return None
        if vals is not None:
            hits.append((r, vals))
    start = starts[0]
    code = int(start[1][:3])
    called = [e for e in ev if e[0] == 'handler']
    has_hooks = any(c['op'] == 'add_hook' for c in case['cmds'])
    if not hits:
        if has_hooks:
            return None
        if called:
            return 'no rule matches %r but a handler was called' % sp
        if not start[3] and code != 404:
            return 'no rule matches %r but the answer is %d' % (sp, code)
        return None
    best = hits[0]
    for h in hits[1:]:
        if rl.better(rl.flat_pattern(h[0][0], h[0][1]), rl.flat_pattern(best[0][0], best[0][1])):
            best = h
    (pattern, fobjs, names, table), vals = best
    verb = effective_verb(case).upper()
    cands = [verb] + (['GET'] if verb == 'HEAD' else []) + ['ANY']
    target = next((table[c] for c in cands if c in table), None)
    if any(c3.fails(spec_of(case['hooks'], c['h'])['p']) for c in case['cmds']
           if c['op'] == 'add_hook' and spec_of(case['hooks'], c['h'])['k'] == 'prog'):
        return None
    if target is None:
        if called:
            return '%s is not registered on the matched rule but a handler was called' % verb
        if start[3]:
            return None
        if code != 405:
            return '%s not registered on the matched rule %r: expected 405, got %d' % (verb, pattern, code)
        allow = [v for k, v in start[2] if k == 'Allow']
        want = ','.join(sorted(table)).encode('utf8').decode('latin1')
        if allow != [want]:
            return 'Allow header on the wire %r, methods registered on the matched rule %r' % (allow, sorted(table))
        return None
    if len(called) != 1:
        return 'matched rule %r: handler called %d times' % (pattern, len(called))
    h, hnames = target
    spec = spec_of(case['handlers'], h)
    if spec['k'] == 'echo' and not start[3] and code == 200 and effective_verb(case) != 'HEAD':
        want_kw = [(n, v) for n, v in zip(hnames, vals) if not n.startswith('anon-')]
        want = ('kw:' + render_kw(want_kw)).encode('utf8')
        body = [e for e in ev if e[0] == 'body']
        got = b''.join(bytes(c) for c in body[0][1] if c != 'bad') if body else None
        if got != want:
            return 'handler %d was called with %r, the matched rule gives %r' % (h, got, want)
    return None


# --------------------------------------------------------------------------
# generators
# --------------------------------------------------------------------------

def spell(rng, verb):
    r = rng.random()
    if r < 0.8:
        return verb
    if r < 0.9:
        return verb.lower()
    return verb.capitalize()


def g_case(rng):
    c = c3.Ctx(rng, edits=False)
    nrules = rng.choice([1, 2, 2, 3, 3, 4, 6])
    cmds, abstract = [], []
    hcount = 0
    handlers, hooks = [], []
    for _ in range(nrules):
        if abstract and rng.random() < 0.25:
            rule, segs = rng.choice(abstract)
            if rng.random() < 0.5:
                rule = rl.render_rule(rng, segs)        # the same rule in another spelling
        else:
            rule, segs = rl.gen_rule(rng)
            abstract.append((rule, segs))
        ms = rng.sample(rl.VERBS + ['ANY'], rng.choice([1, 1, 2, 3]))
        if rng.random() < 0.1:
            ms = [m.lower() for m in ms]
        hcount += 1
        cmds.append(dict(op='add', rule=rule, methods=ms, h=hcount, overwrite=rng.random() < 0.1))
        if rng.random() < 0.6:
            handlers.append([hcount, dict(k='echo')])
        else:
            handlers.append([hcount, dict(k='prog', p=c3.g_hprog(c, rng.choice([0, 1, 2])))])
    for _ in range(rng.choice([0, 0, 0, 1, 2])):
        rule, segs = rng.choice(abstract)
        # a hook on the rule itself or on a prefix of it
        k = rng.randrange(1, len(segs) + 1)
        hrule = rl.render_rule(rng, segs[:k])
        hcount += 1
        cmds.append(dict(op='add_hook', rule=hrule, h=hcount, partial=rng.random() < 0.4))
        if rng.random() < 0.7:
            hooks.append([hcount, dict(k='echo')])
        else:
            hooks.append([hcount, dict(k='prog', p=c3.g_hook(c))])
    if rng.random() < 0.08 and abstract:
        cmds.append(dict(op=rng.choice(['remove', 'remove_hook']), rule=rng.choice(abstract)[0]))
    rng.shuffle(cmds) if rng.random() < 0.3 else None
    rule, segs = rng.choice(abstract)
    path = rl.instantiate(rng, segs)
    if rng.random() < 0.45:
        path = rl.mutate_path(rng, path)
    if '\x00' in path or any(0xD800 <= ord(ch) <= 0xDFFF for ch in path):
        path = path.replace('\x00', 'z')
    verb = spell(rng, rng.choice(rl.VERBS))
    dm = None
    if rng.random() < 0.15:
        # a domain map: when the path starts with a plain ASCII segment, serve it as application "<segment>" with
        # the rest as PATH_INFO, so that the prefixed path is the one the rules were written for
        segs_ = path.split('/')
        name = segs_[1] if len(segs_) > 2 and segs_[1].isascii() and segs_[1].isalnum() else 'app'
        if name != 'app':
            path = '/' + '/'.join(segs_[2:])
        host = rng.choice(['a.example', 'b.example:8080'])
        table = [[host, name]] if rng.random() < 0.8 else [['nobody.example', name]]
        dm = dict(table=table, host=host, fwd=rng.random() < 0.4, header=rng.choice(['', 'HTTP_X_APP_NAME']),
                  via=rng.choice(['ctor', 'setup']))
    for c_ in cmds:
        if c_['op'] == 'add_hook' and c_.get('partial') and rng.random() < 0.5:
            c_['via'] = 'error'
    before = [c3.g_hook(c) for _ in range(rng.choice([0, 0, 0, 1, 2]))]
    if rng.random() < 0.12:
        # the request arrives under a prefix / with another verb; a before_request hook rewrites it
        muts = []
        if rng.random() < 0.8:
            muts.append(dict(m='env', key='PATH_INFO', v=path))
            path = rng.choice(['/v1', '/en-GB', '/x/y']) + path
        if rng.random() < 0.4:
            muts.append(dict(m='env', key='REQUEST_METHOD', v=verb))
            verb = rng.choice([v for v in rl.VERBS if v != verb.upper()])
        before.insert(rng.randrange(0, len(before) + 1),
                      dict(muts=muts, res=dict(k='ret', o=dict(k='falsy', v='none'))))
    eh = []
    if rng.random() < 0.1:
        eh.append([rng.choice([404, 405, 500]), dict(k=rng.choice(['body', 'raise']))])
    return dict(kind='app', cmds=cmds, handlers=handlers, hooks=hooks,
                before=before,
                after=[c3.g_hook(c) for _ in range(rng.choice([0, 0, 0, 1, 2]))],
                eh=eh, dm=dm, req=dict(path=path, verb=verb, fw=rng.random() < 0.2, json=rng.random() < 0.25))


def gen(rng, n):
    for _ in range(n):
        yield g_case(rng)


def simple(cmds, path, verb='GET', handlers=None, hooks=None, **kw):
    hs = handlers if handlers is not None else [[c['h'], dict(k='echo')] for c in cmds if c['op'] == 'add']
    ks = hooks if hooks is not None else [[c['h'], dict(k='echo')] for c in cmds if c['op'] == 'add_hook']
    d = dict(kind='app', cmds=cmds, handlers=hs, hooks=ks, before=[], after=[], eh=[], dm=None,
             req=dict(path=path, verb=verb, fw=False, json=False))
    d.update(kw)
    return d


def corpus():
    add = lambda rule, ms, h, **kw: dict(op='add', rule=rule, methods=ms, h=h, **kw)
    hk = lambda rule, h, partial=False: dict(op='add_hook', rule=rule, h=h, partial=partial)
    two = [add('/u/<name>', ['GET'], 1), add('/u/<id:int>/edit', ['POST', 'PUT'], 2)]
    cs = [
        simple(two, '/u/bob'), simple(two, '/u/bob', 'HEAD'), simple(two, '/u/bob', 'head'),
        simple(two, '/u/bob', 'DELETE'),                            # 405, Allow: GET
        simple(two, '/u/7/edit', 'GET'),                            # 405, Allow: POST,PUT
        simple(two, '/u/7/edit', 'put'), simple(two, '/u/x/edit', 'POST'),   # int filter rejects -> 404
        simple(two, '/nope'), simple(two, '//u//bob/'), simple(two, 'u/bob'),
        simple(two, '/u/bob', 'DELETE', req=dict(path='/u/bob', verb='DELETE', fw=False, json=True)),
        # F2: two rules on one pattern with different parameter names
        simple([add('/v/<a>', ['GET'], 1), add('/v/<b>', ['POST'], 2)], '/v/1', 'POST'),
        # literal beats wildcard, anonymous wildcard dropped from kwargs
        simple([add('/a/<x>', ['ANY'], 1), add('/a/b', ['GET'], 2), add('/a/<:int>/c', ['GET'], 3)], '/a/b'),
        simple([add('/a/<x>', ['ANY'], 1), add('/a/b', ['GET'], 2), add('/a/<:int>/c', ['GET'], 3)], '/a/5/c'),
        simple([add('/a/<x>', ['ANY'], 1), add('/a/b', ['GET'], 2)], '/a/b', 'POST'),      # 405 on the literal route
        # route hooks: SIMPLE on a prefix and on the rule, PARTIAL on a 404
        simple([add('/h/<x>/z', ['GET'], 1), hk('/h', 2), hk('/h/<x>', 3)], '/h/q/z'),
        simple([add('/h/<x>/z', ['GET'], 1), hk('/h', 2, True)], '/h/q/nope'),
        simple([add('/h/<x>/z', ['GET'], 1), hk('/h', 2, True), hk('/h/<x>', 3, True)], '/h/q/nope'),
        simple([add('/h/<x>/z', ['GET'], 1), hk('/h', 2)], '/h/q/z',
               hooks=[[2, dict(k='prog', p=c3.BAD_HOOK)]]),
        simple(two, '/u/é€/edit', 'PATCH'), simple([add('/p/<rest:path>', ['GET'], 1)], '/p/a/b//c'),
        simple(two, '/u/bob', before=[c3.OK_HOOK, c3.BAD_HOOK], after=[c3.OK_HOOK]),
    ]
    # config.domain_map / app_name_header: Host and X-Forwarded-Host, mapped and unmapped, header named or ''
    for fwd in (False, True):
        for header in ('', 'HTTP_X_APP_NAME'):
            for via in ('ctor', 'setup'):
                cs.append(simple(two, '/bob', dm=dict(table=[['a.example', 'u']], host='a.example', fwd=fwd, header=header, via=via)))
                cs.append(simple(two, '/7/edit', 'GET', dm=dict(table=[['a.example', 'u']], host='a.example', fwd=fwd,
                                                               header=header, via=via)))
    cs.append(simple(two, '/u/bob', dm=dict(table=[['a.example', 'u']], host='zzz.example', fwd=False, header='', via='ctor')))
    cs.append(simple(two, '/nope', dm=dict(table=[['a.example', 'u']], host='a.example', fwd=False, header='', via='ctor'),
                     req=dict(path='/nope', verb='GET', fw=False, json=True)))
    cs.append(simple([add('/h/<x>/z', ['GET'], 1), dict(hk('/h', 2, True), via='error')], '/h/q/nope'))
    # before_request hooks that rewrite the request: prefix stripping, method override (and a failing hook in front)
    strip = dict(muts=[dict(m='env', key='PATH_INFO', v='/u/bob')], res=dict(k='ret', o=dict(k='falsy', v='none')))
    verb_ = dict(muts=[dict(m='env', key='REQUEST_METHOD', v='GET')], res=dict(k='ret', o=dict(k='falsy', v='none')))
    cs.append(simple(two, '/v1/u/bob', before=[strip]))
    cs.append(simple(two, '/v1/u/bob', 'DELETE', before=[c3.OK_HOOK, strip, verb_]))
    cs.append(simple(two, '/u/bob', 'POST', before=[verb_]))
    cs.append(simple(two, '/u/bob', 'HEAD', before=[verb_]))                   # HEAD rewritten to GET: body is sent
    cs.append(simple(two, '/u/bob', 'GET', before=[dict(verb_, muts=[dict(m='env', key='REQUEST_METHOD', v='HEAD')])]))
    cs.append(simple(two, '/v1/u/bob', before=[c3.BAD_HOOK, strip]))             # the rewriting hook never runs
    cs.append(simple(two, '/7/edit', 'GET', before=[dict(strip, muts=[dict(m='env', key='PATH_INFO', v='/u/7/edit')])]))
    return cs


def nontrivial(case, obs):
    return sum(1 for c in case['cmds'] if c['op'] == 'add') >= 2 and any(e[0] == 'routed' for e in obs.get('events', []))


def key(case):
    return json.dumps(case, sort_keys=True)


def classify(case, obs):
    st = [e for e in obs.get('events', []) if e[0] == 'start']
    code = st[0][1][:3] if st else 'none'
    kinds = 'hooks' if any(c['op'] == 'add_hook' for c in case['cmds']) else 'plain'
    return '%s/%s/%s' % (kinds, 'handler' if any(e[0] == 'handler' for e in obs.get('events', [])) else 'no-handler', code)


def shrink(case):
    cmds = case['cmds']
    for i in range(len(cmds)):
        yield dict(case, cmds=cmds[:i] + cmds[i + 1:])
    for f in ('before', 'after', 'eh'):
        for i in range(len(case[f])):
            yield dict(case, **{f: case[f][:i] + case[f][i + 1:]})
    p = case['req']['path']
    for k in range(len(p)):
        yield dict(case, req=dict(case['req'], path=p[:k] + p[k + 1:]))
    for i, (h, s) in enumerate(case['handlers']):
        if s['k'] != 'echo':
            yield dict(case, handlers=case['handlers'][:i] + [[h, dict(k='echo')]] + case['handlers'][i + 1:])


PREDICATES = {}

API_SURFACE = [
    ('Ombott.add_route / route(rule, method, callback, name, overwrite)', 'covered by add commands (several verbs, lower-case, '
     'repeated, conflicting, overwrite)'),
    ('Ombott.remove_route / remove_route_hook', 'covered occasionally (remove / remove_hook commands); histories are C11'),
    ('Ombott.on_route(rule, f) (SIMPLE hooks)', 'covered by add_hook commands; prefix argument checked by echo hooks'),
    ('router.add_hook(rule, f, PARTIAL) / Ombott.error(404, rule)', 'covered by add_hook partial, via=error'),
    ('Ombott.to_route + Request.path + Request.method', 'covered: leading-slash variants, trailing slashes, verbs in any case'),
    ('Ombott.handler', 'covered: 404 / PARTIAL / 405 Allow / SIMPLE hooks / kwargs'),
    ('config.domain_map / app_name_header (ctor and setup)', 'covered by dm cases: Host, X-Forwarded-Host, unmapped host, named and '
     'empty header; model App.with_app_name, theorem App_domain_map_routes_prefixed_path'),
    ('rule syntax / filters / rex selectors', 'rule parsing is C01p; rex selectors are outside routerC\'s model (not generated)'),
    ('everything after routing', 'see API_SURFACE of tools/props/C03.py'),
]

MANIFEST = dict(
    text=('Sub-check of C03: coq/model/App.v composes routerC\'s router model (Router.to_route on request.path = "/" + '
          'PATH_INFO.lstrip("/") and the upper-cased method) with the C03 model (Ombott.handler\'s 404/405 errors, SIMPLE '
          'route hooks with their path prefix, the PARTIAL 404 hook, the handler called with resolve\'s kwargs). Theorems '
          '(coq/props/C03a.v, closed under the global context): App_is_C03_model (serve_app is wsgi on the routed program, '
          'so every C03 theorem holds of it), App_405_allow_on_the_wire (C02\'s Allow reaches start_response exactly), '
          'App_404_iff_no_rule_matches (C01\'s spec on the wire), App_handler_called_with_spec_kwargs.'),
    note=('Hypotheses: hooks return, no custom 404/405 error handler, router state built by a script of registrations '
          '(C01\'s guard) and no PARTIAL hook for the 404 claim; filt universally quantified.'),
    technique='composition of the router model and the WSGI model + trace correspondence on real applications',
    design_ref='DESIGN.md section 4, C03 / C01 / C02',
)
