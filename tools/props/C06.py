"""C06 — multipart parsing is independent of how the body is split into reads."""
import io
import itertools

from props.common import enc_str, enc_list, Reader, environ, FragStream

ID = 'C06'
COQ_MODEL = 'model.MultipartFeed'
COQ_CORR = 'corr_C06'
N_QUICK = 2600
N_THOROUGH = 12000
THOROUGH_EXHAUSTIVE = True
RULE = ('cases = corpus (F6/F7 witnesses, every single cut of 6 adversarial bodies, byte-at-a-time, k-regular cuts) + '
        'random: bodies from the grammar [CRLF] --B (CRLF hdrs CRLFCRLF data)* CRLF--B-- epilogue with 0-4 parts, '
        'boundaries incl. "-", "--", "abab", data over {CR, LF, "-", delimiter prefixes, other}, all kinds of prefixes, '
        'cut into chunks (single/double/random cuts, byte-at-a-time, k-regular, empty chunks) fed to '
        'MultipartMarkup.parse, or sent through WSGI with max_memfile_size as the chunking, or POSTed through '
        'Ombott.__call__ with wsgi.input a fragmenting stream (schedules of short reads incl. 1-byte reads and a first '
        'read shorter than the opening boundary line) x max_memfile_size below/at/above the body size x Content-Length '
        'equal/above (early EOF)/below the data x max_body_size x Content-Type variants x a warm application, or as '
        'Transfer-Encoding: chunked with arbitrary transfer-chunk sizes; str boundaries; plus a malformed stream '
        '(mutations, random bytes over the small alphabet, CR in the boundary).  thorough adds every single and double '
        'cut of every prefix of the adversarial bodies (explicit cases for short bodies, in-oracle sweeps for all). '
        'non-trivial = at least two non-empty chunks and at least one cut falls inside a delimiter, a CRLFCRLF, the '
        'two bytes after a delimiter, or a delimiter look-alike; distinct by (boundary, body, cuts, via)')
TRUSTED = ['modelled, not verified: the header-end regular expression end_headers_patt is re-implemented by hand as '
           'Multipart.hsearch/alt2 (source text pinned by proofs/C06_model_pins.v, behaviour tied by this correspondence)',
           'modelled, not verified: bytes slicing/startswith/== are lib/Str.v slice/prefixb/str_eqb; the assert of '
           'MatchTail.match_tail (slen <= len) is discharged at its two call sites rather than modelled',
           'no section hypotheses: every C06 theorem is closed; wf_prefix is the executable MultipartRef.wf_prefixb, '
           'validated on every run against an independent Python statement (tools/props/C06.py: py_wf)',
           'Request.forms/files under varied max_memfile_size: correspondence and oracle only (no C06 theorem)',
           'via=wsgi_frag: the model computes the parts itself (coq/model/MultipartFeed.v body_parts over Stream.v, '
           'theorem C06_result_independent_of_reads); via=wsgi_chunked: the part list (every transfer chunk cut into '
           'buffers, full reads) is computed by the harness (chunked_parts) — _iter_chunked itself is C05\'s model; '
           'a request refused with 413 because of max_body_size is checked by the oracle only (C13\'s subject); the '
           '"large wsgi default buffer" cases (100 KiB read buffers, default configuration) are oracle-only as well: '
           'the extracted model works on unary positions and needs minutes for 100 KiB, the same situation is compared '
           'with the model on 9-20 kB bodies (large single/double cut, large k-regular, large wsgi short reads)']
ASSUMPTIONS = ['CR does not occur in the boundary (the code rejects such a boundary with InvalidBoundaryError)',
               'split independence is claimed for wf_prefix bodies (coq/model/MultipartRef.v: wf_prefixb); for other '
               'inputs the parser is knowingly split dependent (C12 covers them: no server fault)']

CRLF = b'\r\n'

# ------------------------------------------------------------------ well-formedness (independent Python statement)


def hdr_clean(X):
    if b'\r\n\n' in X:
        return False
    i = X.find(b'\r\n\r')
    while i >= 0:
        if i + 3 < len(X) and X[i + 3:i + 4] != b'\n':
            return False
        i = X.find(b'\r\n\r', i + 1)
    return True


def py_wf(B, body):
    """body is a prefix of  [CRLF] --B (CRLF hdrs CRLFCRLF data)* CRLF--B-- epilogue  (see MultipartRef.v)"""
    if b'\r' in B:
        return False
    tok = b'\r\n--' + B
    if not body:
        return True
    if body[:1] == b'\r':
        D, v = body, 0
    elif body[:1] == b'-':
        D, v = CRLF + body, 2
    else:
        return False
    if not D.startswith(tok):
        return tok.startswith(D)
    a = len(tok) - v
    while True:
        R = body[a:a + 2]
        if len(R) < 2:
            return R in (b'', b'\r', b'-')
        if R == b'--':
            return True
        if R != CRLF:
            return False
        hs = a + 2
        e = body.find(b'\r\n\r\n', hs)
        X = body[hs:] if e < 0 else body[hs:e + 4]
        if not hdr_clean(X):
            return False
        if e < 0:
            return True
        q = body.find(tok, e + 4)
        if q < 0:
            return True
        a = q + len(tok)


# ------------------------------------------------------------------ bodies

def build(B, parts, lead=False, close=True, epilogue=b''):
    """parts = [(hdrs bytes, data bytes)]"""
    d = b'--' + B
    out = (CRLF if lead else b'') + d
    for h, data in parts:
        out += CRLF + h + CRLF + CRLF + data + CRLF + d
    if close:
        out += b'--' + epilogue
    return out


def disp(name, filename=None, ctype=None):
    h = b'Content-Disposition: form-data; name="%s"' % name
    if filename is not None:
        h += b'; filename="%s"' % filename
    if ctype:
        h += CRLF + b'Content-Type: ' + ctype
    return h


SUITE_BODY = build(b'----WebKitFormBoundaryePkpFF7tjBAqx29L',
                   [(disp(b'text1'), b'abc'), (disp(b'file1', b'a.txt', b'text/plain'), b'<!DOCTYPE html><title>Content of a.txt.</title>\r\n')],
                   epilogue=CRLF)

ADVERSARIAL = [
    (b'B', build(b'B', [(b'A: b', b'data')], epilogue=CRLF)),
    (b'B', build(b'B', [(b'n: a', b'\r\n--\r\n-\r\r\n--b\r\n--B'[:-3] + b'x'), (b'f: 1\r\ng: 2', b'\r\n-\r\n--')],
                 lead=True, epilogue=b'\r\n--B--\r\n')),
    (b'-', build(b'-', [(b'a: 1', b'--\r\n-\r\n--x\r'), (b'-', b'')], epilogue=b'-')),
    (b'--', build(b'--', [(b'-', b'-\r\n---\r\n--'), (b'x\r\ny', b'\r')], lead=True, epilogue=CRLF)),
    (b'abab', build(b'abab', [(b'k: v', b'\r\n--ab\r\n--aba\r\n--ababx'[:-5] + b'q\r\n--a'), (b'\r', b'\r\n--aba')], epilogue=b'')),
    (b'aab', build(b'aab', [(b'h\r\nj', b'\r\n--a\r\n--aa\r\n--a\r\r\n--aaa'), (b'z', b'')], epilogue=b'\r\n\r\n')),
    (b'\n-', build(b'\n-', [(b'p', b'\r\n--\r\n--\n\r\n-'), (b'q', b'\n')], epilogue=b'x')),
    # header blocks at the edge of wf_prefix: empty block, lone CR, lone LF inside a line
    (b'B', build(b'B', [(b'', b'x'), (b'\r', b''), (b'a\nb\r\nc\rd', b'\r\n')], epilogue=CRLF)),
]


WSGI_BODY = (b'B', build(b'B', [(disp(b'a'), b'\r\n--\r\n-\r\r\n--b\r\n--B'[:-3] + b'x'), (disp(b'f', b'n'), b'\r\n-\r\n--')],
                         lead=True, epilogue=b'\r\n--B--\r\n'))


def intervals(B, body):
    """byte ranges [s,e) where a cut is interesting: delimiters (+2 bytes), CRLFCRLF, look-alikes"""
    tok = b'\r\n--' + B
    iv = []
    i = body.find(tok)
    while i >= 0:
        iv.append((i, i + len(tok) + 3))
        i = body.find(tok, i + 1)
    if body.startswith(b'--' + B):
        iv.append((0, len(B) + 5))
    i = body.find(b'\r\n\r\n')
    while i >= 0:
        iv.append((i, i + 5))
        i = body.find(b'\r\n\r\n', i + 1)
    for k in range(1, len(tok)):
        i = body.find(tok[:k])
        while i >= 0:
            iv.append((i, i + k + 1))
            i = body.find(tok[:k], i + 1)
    return iv


def cut(body, cuts):
    cuts = [0] + sorted(cuts) + [len(body)]
    return [list(body[a:b]) for a, b in zip(cuts, cuts[1:])]


def mk(B, chunks, via='markup', wf=None, buf=None, label=''):
    c = dict(boundary=list(B), chunks=chunks, via=via, wf=wf, label=label)
    if buf is not None:
        c['buf'] = buf
    return c


def mk_wsgi(B, body, buf, wf=None, label='wsgi'):
    buf = max(1, buf)
    return mk(B, [list(body[i:i + buf]) for i in range(0, len(body), buf)], via='wsgi', wf=wf, buf=buf, label=label)


def iter_parts(body, buf, sched, cl=None):
    """the parts _iter_body yields (and _body_read feeds to markup.parse) when wsgi.input is a FragStream with
    this schedule: each read asks for min(rest, buf) bytes and gets min(asked, k+1, remaining).  Only used to
    label/shrink cases: for via=wsgi_frag the MODEL computes the parts itself (MultipartFeed.body_parts)."""
    sched = list(sched)
    pos, rest, parts = 0, (len(body) if cl is None else cl), []
    while rest > 0:
        k = min(rest, buf)
        if sched:
            k = min(k, sched.pop(0) + 1)
        part = body[pos:pos + k]
        if not part:
            break
        parts.append(list(part))
        pos += len(part)
        rest -= len(part)
    return parts


CTYPES = ['multipart/form-data; boundary=%s', 'multipart/form-data; boundary=%s; charset=utf-8',
          'multipart/form-data; charset=utf-8; boundary=%s', 'multipart/mixed; boundary=%s']


def mk_frag(B, body, buf, sched, wf=None, label='wsgi-frag', cl=None, maxb=None, ctype=0, warm=False):
    buf = max(1, buf)
    cl = len(body) if cl is None else cl
    c = mk(B, iter_parts(body, buf, sched, cl), via='wsgi_frag', wf=wf, buf=buf, label=label)
    c.update(sched=list(sched), data=list(body), cl=cl, maxb=maxb, ctype=ctype, warm=warm)
    return c


def chunked_parts(pieces, buf):
    """parts _iter_chunked yields from a stream with full reads: every transfer chunk is cut into buffers"""
    parts = []
    for pc in pieces:
        for i in range(0, len(pc), buf):
            parts.append(list(pc[i:i + buf]))
    return parts


def mk_chunked(B, body, buf, sizes, wf=None, with_cl=False, label='wsgi-chunked'):
    """Transfer-Encoding: chunked; sizes = lengths of the transfer chunks (the rest goes into a last one)"""
    buf = max(8, buf)
    pieces, pos = [], 0
    for sz in sizes:
        if pos >= len(body):
            break
        sz = max(1, sz)
        pieces.append(body[pos:pos + sz])
        pos += sz
    if pos < len(body):
        pieces.append(body[pos:])
    c = mk(B, chunked_parts(pieces, buf), via='wsgi_chunked', wf=wf, buf=buf, label=label)
    c.update(pieces=[list(pc) for pc in pieces], with_cl=with_cl)
    return c


def filler(n, seed=7):
    """n bytes of upload content: mostly text, sprinkled with CR, LF, dashes and delimiter look-alikes"""
    unit = b'0123456789abcdef\r\n--x\r-\n' + bytes(range(200, 216))
    out = (unit * (n // len(unit) + 1))[:n]
    return out


def large_body(B, nfill, tail_parts=1):
    parts = [(disp(b'up', b'big.bin', b'application/octet-stream'), filler(nfill))]
    for i in range(tail_parts):
        parts.append((disp(b'field%d' % i), b'value-%d' % i))
    return build(B, parts, epilogue=CRLF)


def header_zone(B, body, which=2):
    """[start, end): from just before the which-th delimiter to just after the CRLFCRLF of the header block after it"""
    d = b'\r\n--' + B
    i = -1
    for _ in range(which - 1):
        i = body.find(d, i + 1)
    e = body.find(b'\r\n\r\n', i + 1)
    return max(0, i - 2), min(len(body), (e if e >= 0 else i + len(d)) + 6)


def large_cases(quick=True):
    """read buffers of tens of kB that end around a delimiter / inside a later part's header block"""
    out = []
    B = b'LargeBnd7'
    body = large_body(B, 9000, tail_parts=2)
    a, b = header_zone(B, body, 2)
    step = 4 if quick else 1
    for pos in list(range(a, b, step)) + [b - 1]:
        out.append(mk(B, cut(body, [pos]), wf=True, label='large single cut'))
    for pos in (a + 3, (a + b) // 2, b - 5):
        out.append(mk(B, cut(body, [300, pos]), wf=True, label='large double cut'))
        out.append(mk(B, cut(body, [pos, pos + 1]), wf=True, label='large double cut'))
    # regular buffers of 8 KiB + 1 ... : some buffer end falls into the third part's header block
    body = large_body(B, 20000, tail_parts=2)
    a3, b3 = header_zone(B, body, 3)
    for k in (8193, 16384):
        for off in (a3 + 5, (a3 + b3) // 2):
            first = off % k or k
            cuts_ = list(range(first, len(body), k))
            out.append(mk(B, cut(body, cuts_), wf=True, label='large k-regular'))
    # through WSGI with the DEFAULT max_memfile_size (102400): the second part's headers straddle the buffer end
    probe = large_body(B, 1000)
    pa, pb = header_zone(B, probe, 2)
    for into in ((0, 3, 9, 30, pb - pa - 4) if quick else range(0, pb - pa, 2)):
        nfill = 1000 + (102400 - (pa + into))
        wbody = large_body(B, nfill)
        c = mk_frag(B, wbody, 102400, [], wf=True, label='large wsgi default buffer')
        c['default_cfg'] = True
        c['oracle_only'] = True      # 100 KiB through the extracted model (unary positions) takes minutes
        out.append(c)
    c = mk_frag(B, large_body(B, 12000, 2), 8200, [8191, 20000], wf=True, label='large wsgi short reads')
    out.append(c)
    return out


def corpus():
    out = []
    B, body = ADVERSARIAL[0]
    i = body.index(b'--B--')
    out.append(mk(B, cut(body, [i + 4]), wf=True, label='F6 witness: cut between the two final hyphens'))
    out.append(mk(B, cut(body, [i + 5]), wf=True, label='F7 witness: epilogue in a later chunk'))
    out.append(mk(B, cut(body, []) + [[]], wf=True, label='F7 witness: empty chunk after the end'))
    out.append(mk(B, cut(body, [len(body) - 3, len(body) - 2]), wf=True, label='F6: hyphen alone'))
    out.append(mk_wsgi(B, body, i + 4, wf=True, label='F6 through WSGI'))
    out.append(mk_wsgi(B, body, i + 5, wf=True, label='F7 through WSGI'))
    out.append(mk(b'a\rb', [list(b'--a\rb--')], wf=False, label='CR in boundary'))
    out.append(mk(b'B', [], wf=True, label='no chunk'))
    out.append(mk(b'B', [[], []], wf=True, label='empty chunks only'))
    out.append(mk(b'B', [list(b'x--B')], wf=False, label='bad first byte'))
    out.append(mk(b'B', [list(b'\rxyz'), list(b'abc')], wf=False, label='bad start, split dependent'))
    out.append(mk(b'B', [list(b'--B\r\nab\r\n\n'), list(b'\r\nx')], wf=False, label='regex $ before final LF'))
    out.append(mk(b'B', [list(b'--B\r\nab\r\n\r'), list(b'x')], wf=False, label='CRLFCR then junk'))
    out.append(mk(b'B', [list(b'--Ba')], wf=False, label='junk byte after delimiter'))
    out.append(mk(b'B', [list(b'--Bab'), list(b'\r\nh\r\n\r\nd\r\n--B--')], wf=False, label='two junk bytes after delimiter'))
    out.append(mk(b'B', [list(b'--B-'), list(b'x')], wf=False, label='last hyphen expected'))
    out.append(mk(b'B', cut(SUITE_BODY, []), wf=False, label='other boundary'))
    sb = b'----WebKitFormBoundaryePkpFF7tjBAqx29L'
    out.append(mk(sb, cut(SUITE_BODY, []), wf=True, label='suite body, one piece'))
    for k in (1, 2, 7, 64):
        out.append(mk(sb, [list(SUITE_BODY[i:i + k]) for i in range(0, len(SUITE_BODY), k)], wf=True, label='suite body, k=%d' % k))
    for buf in (1, 40, 41, 42, 43, 44, 100, 150, 333, 376, 377, 378, 1000):
        out.append(mk_wsgi(sb, SUITE_BODY, buf, wf=True))
    # Request.forms/files through Ombott.__call__, body delivered by a fragmenting stream (short reads),
    # max_memfile_size below and above the body size
    n = len(SUITE_BODY)
    for buf in (50, n - 1, n, n + 1, 102400):
        for sched in ([], [10], [0] * n, [3, 7, 100], [39, 0, 1, 41], [n - 2], [n // 2] * 3):
            out.append(mk_frag(sb, SUITE_BODY, buf, sched, wf=True))
    # more dimensions of the same path: declared length beyond / below the data (early EOF, data after the body),
    # max_body_size at the limit, Content-Type variants, a warm application (request object reused)
    out.append(mk_frag(sb, SUITE_BODY, 102400, [10], wf=True, cl=n + 7, label='wsgi-frag early EOF'))
    out.append(mk_frag(sb, SUITE_BODY, 64, [5, 200], wf=True, cl=n + 1, label='wsgi-frag early EOF'))
    out.append(mk_frag(sb, SUITE_BODY, 102400, [0, 0, 90], wf=True, cl=n - 50, label='wsgi-frag CL below data'))
    out.append(mk_frag(sb, SUITE_BODY, 100, [], wf=True, cl=137, label='wsgi-frag CL below data'))
    out.append(mk_frag(sb, SUITE_BODY, 102400, [41], wf=True, maxb=n, label='wsgi-frag max_body_size = size'))
    out.append(mk_frag(sb, SUITE_BODY, 70, [41], wf=True, maxb=n - 1, label='wsgi-frag max_body_size exceeded'))
    for ct in range(1, len(CTYPES)):
        out.append(mk_frag(sb, SUITE_BODY, n + 1, [41, 3], wf=True, ctype=ct, label='wsgi-frag ctype'))
    out.append(mk_frag(sb, SUITE_BODY, n, [17], wf=True, warm=True, label='wsgi-frag warm app'))
    out.append(mk_frag(sb, SUITE_BODY, 90, [], wf=True, warm=True, label='wsgi-frag warm app'))
    for buf in (8, 64, n, 102400):
        out.append(mk_chunked(sb, SUITE_BODY, buf, [41, 1, 60, 100], wf=True))
        out.append(mk_chunked(sb, SUITE_BODY, buf, [n], wf=True, with_cl=True))
        out.append(mk_chunked(sb, SUITE_BODY, buf, [1] * 50, wf=True))
    out.append(mk(b'B', cut(ADVERSARIAL[0][1], [7]), via='markup_str', wf=True, label='str boundary'))
    out.append(mk(b'\xff\x00$', cut(build(b'\xff\x00$', [(b'a', b'\xff\r\n--\xff')], epilogue=CRLF), [9, 20]), wf=True,
                  label='boundary bytes'))
    wB, wbody = WSGI_BODY
    for buf in (7, len(wbody), len(wbody) + 100):
        for sched in ([0] * len(wbody), [2], [4, 4, 4, 4, 200], [len(wbody) - 4]):
            out.append(mk_frag(wB, wbody, buf, sched, wf=True))
    for B, body in ADVERSARIAL[:6] + ADVERSARIAL[7:]:
        for i in range(0, len(body) + 1):
            out.append(mk(B, cut(body, [i]), wf=True, label='single cut'))
        out.append(mk(B, [[x] for x in body], wf=True, label='byte at a time'))
        for k in range(1, len(B) + 7):
            out.append(mk(B, [list(body[i:i + k]) for i in range(0, len(body), k)], wf=True, label='k-regular'))
    out.extend(large_cases(quick=True))
    return out


# ------------------------------------------------------------------ generators

BOUNDARIES = [b'-', b'--', b'abab', b'B', b'aab', b'a', b'x-x', b'\n', b'aa', b'-a-', b'----WebKitFormBoundaryX',
              b'\xff\xfe', b'a\x00b', b'$^.*', b'\n\n', b'']


def gen_boundary(rng):
    if rng.random() < 0.75:
        return rng.choice(BOUNDARIES)
    return bytes(rng.choice(b'-ab\nB') for _ in range(rng.randrange(0, 5)))


def gen_data(rng, tok, maxlen=18):
    for _ in range(50):
        out = b''
        n = rng.randrange(0, 6)
        for _ in range(n):
            r = rng.random()
            if r < 0.2:
                out += b'\r'
            elif r < 0.3:
                out += b'\n'
            elif r < 0.45:
                out += b'-'
            elif r < 0.8:
                out += tok[:rng.randrange(1, len(tok))]
            elif r < 0.9:
                out += tok[rng.randrange(0, len(tok)):]
            else:
                out += bytes([rng.choice(b'abxB\x00\xff ')])
        out = out[:maxlen]
        if tok not in out:
            return out
    return b''


EXOTIC_LINES = [b'', b'\r', b'\n', b'a\rb', b'a\nb', b'\n\r', b'\r\r', b'x', b'--', b'\ra', b'a\r']


def gen_hdrs(rng, real, exotic=False):
    if exotic:
        # header blocks allowed by wf_prefix beyond "non-empty lines free of CR and LF": empty block, lone CR / LF
        return CRLF.join(rng.choice(EXOTIC_LINES) for _ in range(rng.randrange(0, 3)))
    if real:
        name = rng.choice([b'a', b'f1', b'text', b'n-1'])
        if rng.random() < 0.5:
            return disp(name, rng.choice([b'a.txt', b'x', b'--']), rng.choice([None, b'text/plain']))
        return disp(name)
    lines = []
    for _ in range(rng.randrange(1, 4)):
        lines.append(rng.choice([b'a', b'-', b'--', b'X: y', b'k:v;', b'--B', b'ab', b' ', b'\x00']))
    return CRLF.join(lines)


def gen_body(rng, real=False):
    B = gen_boundary(rng)
    if real:
        B = rng.choice([b'B', b'abab', b'--', b'-', b'x-x', b'----WebKitFormBoundaryX'])
    tok = b'\r\n--' + B
    exotic = (not real) and rng.random() < 0.15
    parts = [(gen_hdrs(rng, real, exotic), gen_data(rng, tok)) for _ in range(rng.choice([0, 1, 1, 2, 2, 3, 4]))]
    close = rng.random() < 0.8
    epi = b''
    if close and rng.random() < 0.6:
        epi = rng.choice([CRLF, b'\r', b'-', b'--', b'x', b'\r\n--' + B, b'\r\n\r\n', gen_data(rng, b'\r\n--zz')])
    body = build(B, parts, lead=rng.random() < 0.3, close=close, epilogue=epi)
    return B, body, (None if exotic else True)


def gen_cuts(rng, B, body):
    n = len(body)
    r = rng.random()
    if r < 0.2:
        chunks = cut(body, [rng.randrange(0, n + 1)])
    elif r < 0.45:
        chunks = cut(body, [rng.randrange(0, n + 1), rng.randrange(0, n + 1)])
    elif r < 0.55:
        chunks = [[x] for x in body]
    elif r < 0.75:
        k = rng.randrange(1, len(B) + 7)
        chunks = [list(body[i:i + k]) for i in range(0, n, k)]
    elif r < 0.8:
        chunks = cut(body, [])
    else:
        chunks = cut(body, [rng.randrange(0, n + 1) for _ in range(rng.randrange(1, 9))])
    if rng.random() < 0.2:
        for _ in range(rng.randrange(1, 3)):
            chunks.insert(rng.randrange(0, len(chunks) + 1), [])
    return chunks


def mutate(rng, body):
    b = bytearray(body)
    for _ in range(rng.randrange(1, 3)):
        if not b:
            break
        i = rng.randrange(0, len(b))
        r = rng.random()
        if r < 0.35:
            del b[i]
        elif r < 0.7:
            b.insert(i, rng.choice(b'\r\n-ab'))
        else:
            b[i] = rng.choice(b'\r\n-ab')
    return bytes(b)


def gen(rng, n):
    for _ in range(n):
        r = rng.random()
        if r < 0.62:
            B, body, wf = gen_body(rng)
            if rng.random() < 0.6:
                body = body[:rng.randrange(0, len(body) + 1)]
            via = 'markup'
            if rng.random() < 0.05 and all(x < 128 for x in B):
                via = 'markup_str'
            yield mk(B, gen_cuts(rng, B, body), via=via, wf=wf, label='grammar' if wf else 'grammar-exotic-headers')
        elif r < 0.72:
            B, body, _ = gen_body(rng, real=True)
            if rng.random() < 0.3:
                body = body[:rng.randrange(0, len(body) + 1)]
            if rng.random() < 0.5:
                yield mk_wsgi(B, body, rng.randrange(1, len(body) + 3), wf=True)
            else:
                n = len(body)
                buf = rng.choice([rng.randrange(1, n + 2), n, n + 1, n + rng.randrange(2, 60), 102400])
                if rng.random() < 0.25:
                    sched = [0] * n
                else:
                    sched = [rng.choice([0, 0, 1, 2, 5, len(B) + 1, 20, 60, 1000]) for _ in range(rng.randrange(1, 30))]
                r2 = rng.random()
                if r2 < 0.2:
                    yield mk_chunked(B, body, rng.choice([8, 16, 50, n, n + 9]),
                                     [rng.randrange(1, 40) for _ in range(rng.randrange(1, 12))], wf=True,
                                     with_cl=rng.random() < 0.3)
                    continue
                kw = {}
                if r2 < 0.35:
                    kw['cl'] = n + rng.randrange(1, 9)
                elif r2 < 0.5:
                    kw['cl'] = rng.randrange(0, n + 1)
                elif r2 < 0.6:
                    kw['maxb'] = rng.choice([n, n + 5, max(0, n - 1), n // 2])
                elif r2 < 0.7:
                    kw['ctype'] = rng.randrange(1, len(CTYPES))
                elif r2 < 0.8:
                    kw['warm'] = True
                yield mk_frag(B, body, buf, sched, wf=True, **kw)
        elif r < 0.9:
            B, body, _ = gen_body(rng)
            body = mutate(rng, body)
            if rng.random() < 0.4:
                body = body[:rng.randrange(0, len(body) + 1)]
            yield mk(B, gen_cuts(rng, B, body), label='mutated')
        elif r < 0.98:
            B = gen_boundary(rng)
            tok = b'\r\n--' + B
            body = b''.join(rng.choice([b'\r', b'\n', b'-', b'\r\n', b'--', tok, tok[2:], b'\r\n\r\n', b'a', tok[:rng.randrange(1, len(tok))]])
                            for _ in range(rng.randrange(0, 14)))
            yield mk(B, gen_cuts(rng, B, body), label='random')
        else:
            B = rng.choice([b'a\rb', b'\r', b'ab\r'])
            yield mk(B, gen_cuts(rng, B, build(B, [(b'a', b'b')])), label='CR in boundary')


def thorough():
    for c in large_cases(quick=False):
        yield c
    # explicit cases (model compared too): every single and double cut of every prefix of short bodies
    short = [(b'B', build(b'B', [(b'a', b'\r\n-')], epilogue=CRLF)),
             (b'-', build(b'-', [(b'-', b'\r\n--\r')], lead=True, epilogue=b'-')),
             (b'aa', build(b'aa', [(b'h', b'\r\n--a')], epilogue=b''))]
    for B, body in short:
        for L in range(0, len(body) + 1):
            p = body[:L]
            for i in range(0, L + 1):
                for j in range(i, L + 1):
                    yield mk(B, cut(p, [i, j]), wf=True, label='all double cuts of all prefixes')
    # every double cut of the full adversarial bodies
    for B, body in ADVERSARIAL:
        n = len(body)
        for i in range(0, n + 1):
            for j in range(i, n + 1):
                yield mk(B, cut(body, [i, j]), wf=True, label='all double cuts')
    # in-oracle sweeps: every single + double cut + k-regular of every prefix (implementation only)
    for B, body in ADVERSARIAL:
        yield mk(B, cut(body, []), via='sweep', wf=True, label='sweep')
    sb = b'----WebKitFormBoundaryePkpFF7tjBAqx29L'
    for buf in range(1, len(SUITE_BODY) + 2):
        yield mk_wsgi(sb, SUITE_BODY, buf, wf=True)
    for B, body in [ADVERSARIAL[0], WSGI_BODY]:
        for buf in range(1, len(body) + 2):
            yield mk_wsgi(B, body, buf, wf=True)
    # fragmenting stream: every first-read length x buffer below / at / above the body size
    for B, body in [WSGI_BODY, (sb, SUITE_BODY)]:
        n = len(body)
        for buf in (n // 3, n - 1, n, n + 1, 102400):
            for k in range(0, n):
                yield mk_frag(B, body, buf, [k], wf=True)
            for k in (0, 1, 2, 5):
                yield mk_frag(B, body, buf, [k] * n, wf=True)


# ------------------------------------------------------------------ implementation side

KNOWN_ERRS = ('InvalidBoundaryError', 'MalformedHeadersError', 'UnexpectedBodyEndError', 'StopMarkupException',
              'AssertionError')


def err_name(exc):
    if exc is None:
        return None
    n = type(exc).__name__
    return n if n in KNOWN_ERRS else 'other:' + n


def parse_chunks(B, chunks, as_str=False):
    from ombott.request_pkg.multipart import MultipartMarkup
    try:
        m = MultipartMarkup(B.decode('ascii') if as_str else B)
    except Exception as e:
        return dict(secs=[], err=err_name(e))
    for c in chunks:
        m.parse(bytes(c))
    return dict(secs=[[0 if name == 'headers' else 1 if name == 'data' else name, se[0], se[1]] for name, se in m.markups],
                err=err_name(m.error))


def wsgi_forms(B, body, buf):
    """Request.forms / Request.files with max_memfile_size = buf (the buffer size is the chunking)"""
    from ombott import Request, DefaultConfig
    env = environ('POST', '/', **{'wsgi.input': io.BytesIO(body)})
    env['CONTENT_LENGTH'] = str(len(body))
    env['CONTENT_TYPE'] = 'multipart/form-data; boundary=' + B.decode('latin1')
    rq = Request(env, config=DefaultConfig(dict(max_memfile_size=buf, max_body_size=None)))
    res = dict()
    try:
        b = rq.body
        mk_ = getattr(b, 'ombott_markup', None)
        if mk_ is None:
            res['markup'] = None
        else:
            res['markup'] = dict(secs=[[0 if nm == 'headers' else 1, se[0], se[1]] for nm, se in mk_.markups],
                                 err=err_name(mk_.error))
    except Exception as e:
        res['markup'] = dict(secs=[], err='body:' + type(e).__name__)
        return res
    def canon_val(v):
        if isinstance(v, list):
            return [canon_val(x) for x in v]
        if hasattr(v, 'file'):
            v.file.seek(0)
            return ['upload', v.raw_filename, list(v.file.read())]
        return v

    try:
        forms = rq.forms
        files = rq.files
        res['forms'] = sorted([k, canon_val(v)] for k, v in forms.items())
        res['files'] = sorted([k, canon_val(v)] for k, v in files.items())
        res['post'] = 'ok'
    except Exception as e:
        code = getattr(e, 'status_code', None)
        if type(e).__name__ == 'BodySizeError' or code == 413:
            res['post'] = 'too_large'       # the in-memory budget (= max_memfile_size), not the chunking
        else:
            res['post'] = type(e).__name__ + ('' if code is None else ':%s' % code)
    return res


def wsgi_call(B, wire, buf, sched, cl=None, maxb=None, ctype=0, warm=False, chunked=False, default_cfg=False):
    """POST through Ombott.__call__; wsgi.input delivers the bytes with short reads per the schedule"""
    from ombott import Ombott
    app = Ombott() if default_cfg else Ombott(dict(max_memfile_size=buf, max_body_size=maxb))
    seen = {}

    def canon_val(v):
        if isinstance(v, list):
            return [canon_val(x) for x in v]
        if hasattr(v, 'file'):
            v.file.seek(0)
            return ['upload', v.raw_filename, list(v.file.read())]
        return v

    def mk_snap(mk_):
        return None if mk_ is None else dict(
            secs=[[0 if nm == 'headers' else 1, se[0], se[1]] for nm, se in mk_.markups], err=err_name(mk_.error))

    @app.post('/')
    def handler():
        rq = app.request
        seen.clear()
        try:
            b = rq.body
            seen['markup'] = mk_snap(getattr(b, 'ombott_markup', None))
            # a second access: cached body, the parser is not run again
            if mk_snap(getattr(rq.body, 'ombott_markup', None)) != seen['markup']:
                seen['unstable'] = 'markup changed on the second access of Request.body'
        except Exception as e:
            code = getattr(e, 'status_code', None)
            seen['markup'] = dict(secs=[], err='body:' + type(e).__name__ + ('' if code is None else ':%s' % code))
            raise
        try:
            forms, files = rq.forms, rq.files
            seen['forms'] = sorted([k, canon_val(v)] for k, v in forms.items())
            seen['files'] = sorted([k, canon_val(v)] for k, v in files.items())
            post = rq.POST
            if sorted(post.keys()) != sorted(set(forms.keys()) | set(files.keys())):
                seen['unstable'] = 'POST keys differ from forms + files'
            if sorted([k, canon_val(v)] for k, v in rq.forms.items()) != seen['forms']:
                seen['unstable'] = 'forms changed on the second access'
            seen['post'] = 'ok'
        except Exception as e:
            code = getattr(e, 'status_code', None)
            if type(e).__name__ == 'BodySizeError' or code == 413:
                seen['post'] = 'too_large'
            else:
                seen['post'] = type(e).__name__ + ('' if code is None else ':%s' % code)
        return 'x'

    def call(B_, wire_, sched_, cl_, ctype_, chunked_):
        st = FragStream(wire_, sched_)
        env = environ('POST', '/', **{'wsgi.input': st})
        env.pop('CONTENT_LENGTH', None)
        if cl_ is not None:
            env['CONTENT_LENGTH'] = str(cl_)
        if chunked_:
            env['HTTP_TRANSFER_ENCODING'] = 'chunked'
        env['CONTENT_TYPE'] = CTYPES[ctype_] % B_.decode('latin1')
        status = []
        out = app(env, lambda s_, h_, e_=None: status.append(s_))
        b''.join(out)
        if hasattr(out, 'close'):
            out.close()
        return status[0][:3] if status else None

    if warm:
        # the same application (and its request object) has served another multipart upload before
        other = build(b'zz', [(disp(b'w'), b'warm-up')], epilogue=CRLF)
        call(b'zz', other, [1, 2], len(other), 0, False)
    seen.clear()
    status = call(B, wire, sched, (len(wire) if cl is None and not chunked else cl), ctype, chunked)
    res = dict(seen)
    if status == '413' and 'post' not in res:
        res['post'] = 'too_large'
    res['status'] = status
    return res


def chunked_wire(pieces):
    return b''.join(b'%x\r\n' % len(pc) + bytes(pc) + CRLF for pc in pieces) + b'0\r\n\r\n'


def sweep(B, body):
    """every single and double cut, byte-at-a-time and k-regular cuts of every prefix; returns deviations"""
    bad = []
    n_runs = 0
    for L in range(0, len(body) + 1):
        p = body[:L]
        one = parse_chunks(B, [p])
        cands = [[p[:i], p[i:j], p[j:]] for i in range(0, L + 1) for j in range(i, L + 1)]
        cands.append([p[i:i + 1] for i in range(L)])
        for k in range(2, len(B) + 7):
            cands.append([p[i:i + k] for i in range(0, L, k)])
        for ch in cands:
            n_runs += 1
            got = parse_chunks(B, ch)
            if got != one:
                bad.append(dict(prefix=L, chunks=[list(c) for c in ch], got=got, one=one))
                if len(bad) >= 3:
                    return bad, n_runs
    return bad, n_runs


def run_impl(case):
    B = bytes(case['boundary'])
    chunks = [bytes(c) for c in case['chunks']]
    body = b''.join(chunks)
    obs = dict(one=parse_chunks(B, [body]), wf=py_wf(B, body))
    if case['via'] in ('markup', 'markup_str'):
        obs['stream'] = parse_chunks(B, chunks, as_str=case['via'] == 'markup_str')
    elif case['via'] == 'sweep':
        obs['stream'] = obs['one']
        bad, n_runs = sweep(B, body)
        obs['sweep_bad'] = bad
        obs['sweep_runs'] = n_runs
    elif case['via'] == 'wsgi_frag':
        data = bytes(case.get('data', body))
        w = wsgi_call(B, data, case['buf'], case['sched'], cl=case.get('cl'), maxb=case.get('maxb'),
                      ctype=case.get('ctype', 0), warm=case.get('warm', False),
                      default_cfg=case.get('default_cfg', False))
        obs['stream'] = w.pop('markup', None)
        obs['wsgi'] = w
        # reference: the bytes the server may read (the first Content-Length bytes), in one piece, no limit
        obs['wsgi_one'] = wsgi_call(B, body, max(case['buf'], len(body) + 1), [])
        obs['wsgi_one'].pop('markup', None)
        if obs['stream'] is None or str(obs['stream'].get('err', '')).startswith('body:'):
            obs['stream_missing'] = True
    elif case['via'] == 'wsgi_chunked':
        pieces = [bytes(pc) for pc in case['pieces']]
        wire = chunked_wire(pieces)
        w = wsgi_call(B, wire, case['buf'], [], cl=(len(body) + 3 if case.get('with_cl') else None), chunked=True)
        obs['stream'] = w.pop('markup', None)
        obs['wsgi'] = w
        obs['wsgi_one'] = wsgi_call(B, body, max(case['buf'], len(body) + 1), [])
        obs['wsgi_one'].pop('markup', None)
    else:
        w = wsgi_forms(B, body, case['buf'])
        obs['stream'] = w.pop('markup')
        obs['wsgi'] = w
        obs['wsgi_one'] = wsgi_forms(B, body, max(case['buf'], len(body) + 1))
        obs['wsgi_one'].pop('markup')
    return obs


EMPTY_OBS = dict(stream=dict(secs=[], err=None), one=dict(secs=[], err=None), wf=True)


def project(obs, case):
    if case.get('oracle_only'):
        return EMPTY_OBS         # the model is given the empty body for this case (see encode)
    return dict(stream=obs.get('stream'), one=obs.get('one'), wf=obs.get('wf'))


def body_rejected(case):
    """max_body_size is exceeded: the request is refused with 413 while the body is read (C13's subject)"""
    return case.get('maxb') is not None and sum(len(c) for c in case['chunks']) > case['maxb']


def encode(case):
    if case.get('oracle_only'):
        return [0] + enc_str(case['boundary']) + enc_list([], enc_str)
    if case['via'] == 'wsgi_frag' and not body_rejected(case):
        # the model derives the parts from the stream itself (MultipartFeed.body_parts)
        return ([1, case['cl'], case['buf']] + enc_str(case['boundary']) + enc_str(case['data'])
                + enc_list(case['sched'], lambda k: [k]))
    return [0] + enc_str(case['boundary']) + enc_list(case['chunks'], enc_str)


ERRS = {0: None, 1: 'InvalidBoundaryError', 2: 'MalformedHeadersError', 3: 'UnexpectedBodyEndError',
        4: 'AssertionError', 5: 'model:out-of-fuel'}


def decode(out, case):
    r = Reader(out)

    def one():
        secs = r.list(lambda q: [q.int(), q.int(), q.int()])
        return dict(secs=secs, err=ERRS.get(r.int(), 'model:?'))
    stream = one()
    ref = one()
    if body_rejected(case):
        stream = dict(secs=[], err='body:HTTPError:413')
    return dict(stream=stream, one=ref, wf=r.bool())


def oracle(case, obs):
    """split independence stated on the implementation only: parsing the chunks == parsing their concatenation"""
    if 'stream' not in obs:
        return 'unexpected outcome %s' % obs
    if case.get('wf') and not obs['wf']:
        return 'harness: grammar-generated body is not wf_prefix'
    if obs.get('wsgi', {}).get('unstable'):
        return obs['wsgi']['unstable']
    if body_rejected(case):
        if obs.get('wsgi', {}).get('status') != '413':
            return 'body above max_body_size was not refused with 413: %s' % obs.get('wsgi')
        return None
    if not obs['wf']:
        return None
    if obs['stream'] != obs['one']:
        return ('parsing depends on the split: chunks give %s, the same bytes in one piece give %s'
                % (obs['stream'], obs['one']))
    if obs.get('sweep_bad'):
        b = obs['sweep_bad'][0]
        return ('parsing depends on the split: prefix of %d bytes cut as %s gives %s, in one piece %s'
                % (b['prefix'], [len(c) for c in b['chunks']], b['got'], b['one']))
    if case['via'] in ('wsgi', 'wsgi_frag', 'wsgi_chunked'):
        w, w1 = obs['wsgi'], obs['wsgi_one']
        if 'too_large' in (w.get('post'), w1.get('post')):
            return None          # the in-memory budget (= buffer size) is exceeded: C13, not the chunking
        if w != w1:
            return ('Request.forms/files depend on how the body is read (max_memfile_size=%d, read schedule %s): %s '
                    'vs one piece %s' % (case['buf'], str(case.get('sched'))[:60], w, w1))
    return None


def nontrivial(case, obs):
    chunks = [c for c in case['chunks'] if c]
    if len(chunks) < 2 or not obs.get('wf'):
        return False
    B = bytes(case['boundary'])
    body = b''.join(bytes(c) for c in case['chunks'])
    iv = intervals(B, body)
    pos = 0
    for c in chunks[:-1]:
        pos += len(c)
        if any(s < pos < e for s, e in iv):
            return True
    return False


def key(case):
    return (bytes(case['boundary']), tuple(len(c) for c in case['chunks']),
            bytes(b''.join(bytes(c) for c in case['chunks'])), case['via'])


def classify(case, obs):
    one = obs.get('one') or {}
    return '%s/%s/wf=%s/sections=%s/err=%s' % (case['via'], (case.get('label') or '').split(':')[0][:24],
                                             obs.get('wf'), min(len(one.get('secs', [])), 5), one.get('err'))


def shrink(case):
    ch = case['chunks']
    if case['via'] == 'wsgi_frag':
        B, body, sc = bytes(case['boundary']), bytes(case['data']), case['sched']
        kw = dict(wf=case.get('wf'), label=case.get('label', ''), cl=case['cl'], maxb=case.get('maxb'),
                  ctype=case.get('ctype', 0), warm=case.get('warm', False))
        for i in range(len(sc)):
            yield mk_frag(B, body, case['buf'], sc[:i] + sc[i + 1:], **kw)
        if len(sc) > 1:
            yield mk_frag(B, body, case['buf'], sc[:1], **kw)
        for nb in (len(body), len(body) + 1):
            if nb != case['buf']:
                yield mk_frag(B, body, nb, sc, **kw)
        for k2 in ('warm', 'ctype', 'maxb'):
            if kw[k2]:
                yield mk_frag(B, body, case['buf'], sc, **dict(kw, **{k2: (False if k2 == 'warm' else 0 if k2 == 'ctype' else None)}))
        if kw['cl'] != len(body):
            yield mk_frag(B, body, case['buf'], sc, **dict(kw, cl=len(body)))
        return
    if case['via'] != 'markup':
        yield dict(case, via='markup')
        return
    # drop an empty chunk / merge two chunks
    for i in range(len(ch)):
        if not ch[i]:
            yield dict(case, chunks=ch[:i] + ch[i + 1:])
    for i in range(len(ch) - 1):
        yield dict(case, chunks=ch[:i] + [ch[i] + ch[i + 1]] + ch[i + 2:])
    # drop the last byte (prefixes stay well-formed)
    for i in range(len(ch) - 1, -1, -1):
        if ch[i]:
            yield dict(case, chunks=ch[:i] + [ch[i][:-1]] + ch[i + 1:])
            break
    # drop one byte anywhere
    for i in range(len(ch)):
        for j in range(len(ch[i])):
            yield dict(case, chunks=ch[:i] + [ch[i][:j] + ch[i][j + 1:]] + ch[i + 1:], wf=None)


# ------------------------------------------------------------------ dev-only: line coverage of the anchored code
# VERIF_COVERAGE=1 ./check C06 --no-coq   -> evidence/dev/C06_coverage.json + a summary on stderr

COVER_TARGETS = {
    'ombott/request_pkg/multipart.py': ['MatchTail', 'HeadersEaeter', 'BodyMarkuper', 'MultipartMarkup'],
    'ombott/request_pkg/body_mixin.py': ['_body_read', '_iter_body', 'BodyMixin._body'],
}
_cov = dict(hit=set(), codes=None)


def _cover_codes():
    import importlib
    import inspect
    codes = {}
    for rel, names in COVER_TARGETS.items():
        mod = importlib.import_module(rel[:-3].replace('/', '.'))
        for nm in names:
            obj = mod
            for part in nm.split('.'):
                obj = getattr(obj, part) if not isinstance(obj, dict) else obj[part]
            if inspect.isclass(obj):
                members = [(k, v) for k, v in vars(obj).items()]
            else:
                members = [(nm, obj)]
            for k, v in members:
                f = getattr(v, 'fget', None) or getattr(v, '__wrapped__', None) or getattr(v, 'getter', None) or v
                f = getattr(f, '__func__', f)
                code = getattr(f, '__code__', None)
                if code is None:
                    # descriptors of ombott.common_helpers.cache_in keep the function in an attribute
                    for a in ('func', 'fn', 'getter', '_getter'):
                        g = getattr(v, a, None)
                        if g is not None and hasattr(g, '__code__'):
                            code = g.__code__
                            break
                if code is not None and code.co_filename.endswith(rel):
                    codes[code] = '%s:%s' % (rel, code.co_qualname)
    return codes


def _cover_trace(frame, event, arg):
    if frame.f_code in _cov['codes']:
        def local(fr, ev, a):
            if ev == 'line':
                _cov['hit'].add((fr.f_code, fr.f_lineno))
            return local
        _cov['hit'].add((frame.f_code, frame.f_lineno))
        return local
    return None


def _cover_report():
    import dis
    import json
    import linecache
    import os
    import sys
    total, reached, missing = 0, 0, []
    for code, name in sorted(_cov['codes'].items(), key=lambda kv: (kv[1], kv[0].co_firstlineno)):
        lines = sorted({ln for _, ln in dis.findlinestarts(code) if ln is not None and ln != code.co_firstlineno})
        for ln in lines:
            total += 1
            if (code, ln) in _cov['hit']:
                reached += 1
            else:
                missing.append([name, ln, linecache.getline(code.co_filename, ln).strip()])
    root = os.path.normpath(os.path.join(os.path.dirname(os.path.abspath(__file__)), '..', '..'))
    os.makedirs(os.path.join(root, 'evidence', 'dev'), exist_ok=True)
    with open(os.path.join(root, 'evidence', 'dev', 'C06_coverage.json'), 'w') as f:
        json.dump(dict(total=total, reached=reached, missing=missing), f, indent=1)
    print('C06 coverage of anchored functions: %d/%d lines reached' % (reached, total), file=sys.stderr)
    for m in missing:
        print('  not reached: %s:%d  %s' % tuple(m), file=sys.stderr)


import os as _os
if _os.environ.get('VERIF_COVERAGE') == '1':
    import atexit as _atexit
    import sys as _sys
    _plain_run_impl = run_impl

    def run_impl(case):          # noqa: F811
        if _cov['codes'] is None:
            _cov['codes'] = _cover_codes()
            _atexit.register(_cover_report)
        _sys.settrace(_cover_trace)
        try:
            return _plain_run_impl(case)
        finally:
            _sys.settrace(None)


# every public callable / parameter / config key of the anchored code that can influence what C06 observes
API_SURFACE = [
    ('MultipartMarkup(boundary: bytes)', 'covered by markup (all generators)'),
    ('MultipartMarkup(boundary: str)', 'covered by markup_str (ASCII boundaries; a non-ASCII str boundary would be '
                                       'UTF-8 encoded — excluded: RFC 2046 boundaries are 7-bit)'),
    ('MultipartMarkup(boundary containing CR)', 'covered by markup/CR in boundary (InvalidBoundaryError)'),
    ('MultipartMarkup.parse(chunk) incl. empty chunks, chunks after the end, chunks after an error',
     'covered by markup (gen_cuts inserts empty chunks; F7 witnesses; malformed stream)'),
    ('MultipartMarkup.markups / .error', 'observed by every kind'),
    ('BodyMarkuper.iter_markup / _eat_start_boundary / _eat_data, MatchTail.match_tail, HeadersEaeter.*',
     'covered through MultipartMarkup.parse (242/242 lines of the anchored functions, VERIF_COVERAGE=1)'),
    ('BytesIOProxy, FieldStorage, Header (same file)', 'excluded: C07 (content of the parts), not the split'),
    ('_body_read(read=...)', 'covered by wsgi (BytesIO), wsgi_frag (FragStream: short reads, 1-byte reads, early EOF)'),
    ('_body_read(buff_size) = config max_memfile_size', 'covered by wsgi / wsgi_frag: below, at, above the body size, 102400'),
    ('_body_read(content_length)', 'covered by wsgi_frag: equal to, above (early EOF) and below the data'),
    ('_body_read(chunked=True)', 'covered by wsgi_chunked (transfer chunks of any sizes, with and without Content-Length)'),
    ('_body_read(max_body_size) = config max_body_size', 'covered by wsgi_frag maxb: None, = size, > size, < size (413)'),
    ('_body_read(markup=None)', 'excluded: no multipart content type, nothing for C06 to observe'),
    ('BodyMixin._body: CONTENT_TYPE -> boundary', 'covered by wsgi_frag ctype variants (parameters before/after '
                                                  'boundary=, multipart/mixed); quoted boundary / other letter case '
                                                  'excluded: they change WHICH boundary is used (or whether any), not '
                                                  'how the body is split'),
    ('Request.body / .forms / .files / .POST, repeated access', 'covered by wsgi_frag, wsgi_chunked (second access must agree)'),
    ('application / request object reused for a second upload', 'covered by wsgi_frag warm'),
    ('config via Ombott(dict) / DefaultConfig(dict)', 'covered by wsgi_frag / wsgi; setup() excluded: same DefaultConfig path (C13)'),
    ('module-level state of multipart.py', 'none besides constants and the compiled end_headers_patt (pinned)'),
]


PREDICATES = {}

MANIFEST = dict(
    text=('Proof: theorem C06_stream_eq_ref (Coq, closed under the global context) states for EVERY boundary without '
          'CR, every well-formed body prefix (wf_prefix: any prefix of [CRLF]--B(CRLF hdrs CRLFCRLF data)*CRLF--B-- '
          'epilogue, data free of CRLF--B, header blocks without "CR LF LF" and with "CR LF CR" only before LF) and '
          'EVERY division of it into chunks (any number, empty ones included) that the streaming parser of '
          'coq/model/Multipart.v ends with exactly the sections and error of the one-piece reference scanner ref '
          '(coq/model/MultipartRef.v, built on first-occurrence search only); C06_split_independent and '
          'C06_split_independent_pairwise are its corollaries (two divisions of the same bytes give the same result). '
          'C06_grammar_bodies_are_wf proves that every prefix of every body of the multipart grammar (any boundary '
          'without CR, optional leading CRLF, any number of parts with >= 1 header line free of CR/LF and data free of '
          'the delimiter, any epilogue) is a wf_prefix, C06_wf_prefix_closed that wf_prefix is prefix closed, and '
          'C06_grammar_split_independent states the property directly on grammar bodies (reference result, no error). '
          'C06_data_sections_closed_any_input holds WITHOUT wf_prefix (any bytes, any chunking): every Data section '
          'reported after the preamble ends at a real occurrence of CRLF--B in the concatenated body, which is the first '
          'one at or after the section start (no invented and no swallowed delimiter). '
          'Staging lemmas, each a theorem of its own: C06_match_tail_unique/_spec, C06_eat_data_spec (block-wise '
          'search with carry = first occurrence in carried prefix ++ chunk[base:], else longest partial match), '
          'C06_eat_headers_spec, C06_carry_is_longest_partial_match. The model follows multipart.py branch for branch '
          '(MatchTail index table, the three eaters, negative section ends, first error sticks, fixes F6 and F7 '
          'applied); the header-end regex is re-implemented as a scanner whose source text is pinned '
          '(C06_end_headers_regex_pinned breaks when the regex is edited). The model is tied to /repo on every run by a '
          'differential correspondence (extracted OCaml + vm_compute) on MultipartMarkup.markups/.error after feeding '
          'chunks and through WSGI with max_memfile_size as the chunking, on which ref and wf_prefixb are validated '
          'too (against the one-piece parse of the implementation and an independent Python statement of wf_prefix); '
          'an independent oracle (chunks == one piece, on the implementation only) finds the failing input.'),
    note=('Trusted: Coq kernel + vm_compute; extraction (ExtrOcamlBasic only); the Python harness; '
          'tools/gen_constants.py for the regex text. Modelled not verified: CPython re semantics of '
          '(\\r\\n\\r\\n)|(\\r(\\n\\r?)?)$ (hand-written scanner hsearch/alt2), bytes slicing/startswith/== '
          '(lib/Str.v). Outside wf_prefix (malformed bodies) the parser is knowingly split dependent and nothing is '
          'claimed here (C12 claims "no server fault" there). Request.forms/files under varied max_memfile_size are '
          'covered by the correspondence/oracle only (their model is C07).'),
    technique='Coq proof (refinement of the streaming parser to a one-piece reference scanner by a state abstraction) '
              '+ model/implementation correspondence + exhaustive cut enumeration as failing-input search',
    design_ref='DESIGN.md section 4, C06; Appendix A.1, A.7',
)
