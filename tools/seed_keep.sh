#!/bin/sh
# usage: tools/seed_keep.sh <prop> <n> "<needs>"  — verify staging seed n of prop and keep it as seeded/<prop>-<n>/
P=$1; N=$2; NEEDS=$3
S=/verif/seeded/_staging/$P
OUT=$(/verif/tools/seed_verify.sh $P $S/change$N.diff $S/demo$N.py 2>&1)
echo "$OUT"
D=/verif/seeded/$P-$N
mkdir -p $D
cp $S/change$N.diff $D/patch.diff; cp $S/demo$N.py $D/demo.py; cp $S/note$N.txt $D/note.txt
/venv/bin/python - "$P" "$N" "$NEEDS" "$OUT" <<'PY'
import json,sys,re
P,N,NEEDS,OUT=sys.argv[1:5]
caught = 'VIOLATION property=%s'%P in OUT
meta=dict(property=P, seed_id='%s-%s'%(P,N), needs_to_manifest=NEEDS,
  note=open('/verif/seeded/%s-%s/note.txt'%(P,N)).read(),
  verification=dict(
    ran=['git worktree of /repo HEAD + git apply patch.diff', 'pytest -q (82 tests)', 'demo.py on clean and changed tree', 'VERIF_REPO=<worktree> ./check %s --tier quick'%P],
    tests_pass_with_change='82 passed' in OUT,
    demo_passes_on_clean_tree='demo on clean tree: exit 0' in OUT,
    demo_fails_on_changed_tree='demo on changed tree: exit 1' in OUT,
    caught_by_check=caught,
    no_failing_input_found='no-failing-input-found' in OUT,
    check_output=[l for l in OUT.splitlines() if 'VIOLATION' in l or 'tier=' in l][:4]))
json.dump(meta, open('/verif/seeded/%s-%s/meta.json'%(P,N),'w'), indent=1)
print('kept', meta['seed_id'], 'caught=%s'%caught)
PY
