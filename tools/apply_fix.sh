#!/bin/sh
# usage: tools/apply_fix.sh <Fid> <property> "<what failed>"   (coordinator only)
set -e
F=$1; P=$2; W=$3
cd /repo
git apply --check /verif/fixes/$F.patch
git apply /verif/fixes/$F.patch
R=$(/venv/bin/python -m pytest -q -p no:cacheprovider 2>&1 | tail -1)
echo "$R"
case "$R" in *"82 passed"*) ;; *) echo "TESTS NOT GREEN - reverting"; git checkout -- .; exit 1;; esac
git commit -qa -F /verif/fixes/$F.msg
H=$(git log --format=%h -1)
cd /verif
mkdir -p fixes/applied; mv fixes/$F.patch fixes/$F.msg fixes/applied/
/venv/bin/python - "$F" "$P" "$H" "$W" <<'PY'
import json,sys
F,P,H,W=sys.argv[1:5]
open('/verif/KNOWN_FINDINGS.jsonl','a').write(json.dumps({"kind":"fixed","property":P,"id":F,"commit":H,"line":"fixed: property=%s %s %s"%(P,H,W)})+"\n")
PY
echo "applied $F as $H"
