#!/venv/bin/python
"""build_drivers.py — build ocaml/build/drv_<ID> from the extracted model
ocaml/build/m<ID>.ml (written by coq/extract/X<ID>.v) + ocaml/driver_tail.ml.
Rebuilds only when the extracted source changed."""
import glob
import hashlib
import os
import subprocess
import sys

ROOT = os.path.normpath(os.path.join(os.path.dirname(os.path.abspath(__file__)), '..'))
BUILD = os.environ.get('VERIF_OCAML_BUILD') or os.path.join(ROOT, 'ocaml', 'build')


def build(pid, corr_name=None):
    src = os.path.join(BUILD, 'm%s.ml' % pid)
    if not os.path.exists(src):
        return None, 'no extracted source ' + src
    with open(src) as f:
        model = f.read()
    with open(os.path.join(ROOT, 'ocaml', 'driver_tail.ml')) as f:
        tail = f.read()
    text = model + '\nlet corr = %s\n' % (corr_name or 'corr_%s' % pid).lower().replace('corr_c', 'corr_C') + tail
    h = hashlib.sha256(text.encode()).hexdigest()
    exe = os.path.join(BUILD, 'drv_%s' % pid)
    stamp = exe + '.sha'
    if os.path.exists(exe) and os.path.exists(stamp) and open(stamp).read() == h:
        return exe, 'up to date'
    full = os.path.join(BUILD, 'full_%s.ml' % pid)
    with open(full, 'w') as f:
        f.write(text)
    mli = os.path.join(BUILD, 'm%s.mli' % pid)
    r = subprocess.run(['ocamlfind', 'ocamlopt', '-O2', '-w', '-a', '-o', exe, full],
                       cwd=BUILD, capture_output=True, text=True, timeout=600)
    if r.returncode != 0:
        r = subprocess.run(['ocamlfind', 'ocamlopt', '-w', '-a', '-o', exe, full],
                           cwd=BUILD, capture_output=True, text=True, timeout=600)
    if r.returncode != 0:
        return None, 'ocamlopt failed: ' + r.stderr[-2000:]
    with open(stamp, 'w') as f:
        f.write(h)
    return exe, 'built'


def main():
    args = sys.argv[1:]
    if args == ['--all']:
        pids = sorted(os.path.basename(p)[1:-3] for p in glob.glob(os.path.join(BUILD, 'mC*.ml')))
    else:
        pids = args
    rc = 0
    for pid in pids:
        exe, msg = build(pid)
        print(pid, msg)
        if exe is None:
            rc = 1
    return rc


if __name__ == '__main__':
    sys.exit(main())
