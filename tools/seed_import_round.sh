#!/bin/sh
# usage: tools/seed_import_round.sh R Cxx first — import /tmp/mut<R>out_Cxx/{change,demo,note}{1,2} as numbers first, first+1
# into seeded/_staging/Cxx and remove the round's scratch worktree /tmp/mut<R>_Cxx
R=$1; P=$2; N=$3
mkdir -p /verif/seeded/_staging/$P
for i in 1 2; do
  j=$((N+i-1))
  [ -f /tmp/mut${R}out_$P/change$i.diff ] || { echo "missing /tmp/mut${R}out_$P/change$i.diff"; continue; }
  cp /tmp/mut${R}out_$P/change$i.diff /verif/seeded/_staging/$P/change$j.diff
  cp /tmp/mut${R}out_$P/demo$i.py /verif/seeded/_staging/$P/demo$j.py
  cp /tmp/mut${R}out_$P/note$i.txt /verif/seeded/_staging/$P/note$j.txt
done
git -C /repo worktree remove --force /tmp/mut${R}_$P 2>/dev/null
exit 0
