#!/venv/bin/python
"""gen_constants.py — fail-closed ast extractor: /repo source -> coq/gen/Gen.v

Reads the declarative facts the theorems depend on (constant tables, the
candidate-method lists, the no-body status set, forbidden header characters,
the html-escape chain, the error template, regex source texts ...) out of the
*current* working tree of /repo and emits them as Gallina definitions, so that
the theorems in coq/props are re-checked against what the code says now.
If the expected shape is not found the extractor raises (exit 2) and the check
treats that like a broken proof obligation.  Gen.v is only rewritten when its
content changes.
"""
import ast
import os
import sys

sys.path.insert(0, os.path.dirname(os.path.abspath(__file__)))

REPO = os.environ.get('VERIF_REPO', '/repo')
OUT = os.environ.get('VERIF_GEN_OUT') or os.path.join(os.path.dirname(os.path.abspath(__file__)), '..', 'coq', 'gen', 'Gen.v')


class Shape(Exception):
    pass


def parse(rel):
    p = os.path.join(REPO, rel)
    with open(p, encoding='utf8') as f:
        src = f.read()
    return ast.parse(src, p), src


def coq_str(s):
    if isinstance(s, bytes):
        cps = list(s)
    else:
        cps = [ord(c) for c in s]
    return '[' + '; '.join('%d%%N' % c for c in cps) + ']'


def coq_list(items):
    return '[' + '; '.join(items) + ']'


def find_class(tree, name):
    for n in ast.walk(tree):
        if isinstance(n, ast.ClassDef) and n.name == name:
            return n
    raise Shape('class %s not found' % name)


def find_func(tree, name):
    for n in ast.walk(tree):
        if isinstance(n, (ast.FunctionDef,)) and n.name == name:
            return n
    raise Shape('function %s not found' % name)


def class_assign(cls, name):
    for n in cls.body:
        if isinstance(n, ast.Assign) and len(n.targets) == 1 and isinstance(n.targets[0], ast.Name) \
                and n.targets[0].id == name:
            return n.value
    raise Shape('%s.%s not found' % (cls.name, name))


def module_assign(tree, name):
    for n in tree.body:
        if isinstance(n, ast.Assign) and len(n.targets) == 1 and isinstance(n.targets[0], ast.Name) \
                and n.targets[0].id == name:
            return n.value
    raise Shape('module constant %s not found' % name)


def lit(node):
    try:
        return ast.literal_eval(node)
    except Exception as e:
        raise Shape('not a literal: %s' % ast.dump(node)[:80]) from e


def gen_response(out):
    tree, _ = parse('ombott/response.py')
    cls = find_class(tree, 'BaseResponse')
    bad = lit(class_assign(cls, 'bad_headers'))
    if not (isinstance(bad, dict) and all(isinstance(k, int) and isinstance(v, set) for k, v in bad.items())):
        raise Shape('bad_headers shape')
    out.append('(* response.py: BaseResponse.bad_headers *)')
    out.append('Definition bad_headers : list (Z * list (list N)) :=')
    out.append('  ' + coq_list('(%d%%Z, %s)' % (k, coq_list(coq_str(h) for h in sorted(v)))
                               for k, v in sorted(bad.items())) + '.')
    dct = lit(class_assign(cls, 'default_content_type'))
    out.append('Definition default_content_type : list N := %s.' % coq_str(dct))
    out.append('Definition default_status : Z := %d%%Z.' % lit(class_assign(cls, 'default_status')))
    # headerlist: how the blacklist is consulted (the name test)
    hl = find_func(cls, 'headerlist')
    src = ast.unparse(hl)
    if 'h[0].title() not in bad_headers' in src:
        cs = 'false'
    elif 'h[0] not in bad_headers' in src:
        cs = 'true'
    else:
        raise Shape('headerlist: blacklist name test not recognised')
    out.append('(* headerlist consults the per-status blacklist case-%s *)' % ('sensitively' if cs == 'true' else 'insensitively (h[0].title())'))
    out.append('Definition headerlist_blacklist_case_sensitive : bool := %s.' % cs)


def gen_ombott(out):
    tree, _ = parse('ombott/ombott.py')
    cls = find_class(tree, 'Ombott')
    # to_route: if verb == 'HEAD': methods = [verb, 'GET', 'ANY'] else: methods = [verb, 'ANY']
    fn = find_func(cls, 'to_route')
    iff = [n for n in fn.body if isinstance(n, ast.If)]
    if len(iff) != 1:
        raise Shape('to_route: expected one if')
    iff = iff[0]
    t = iff.test
    if not (isinstance(t, ast.Compare) and isinstance(t.left, ast.Name) and t.left.id == 'verb'
            and len(t.ops) == 1 and isinstance(t.ops[0], ast.Eq) and lit(t.comparators[0]) == 'HEAD'):
        raise Shape('to_route: test is not verb == HEAD')

    def cand(body):
        if len(body) != 1 or not isinstance(body[0], ast.Assign):
            raise Shape('to_route: branch shape')
        v = body[0].value
        if not isinstance(v, ast.List):
            raise Shape('to_route: candidates not a list')
        res = []
        for e in v.elts:
            if isinstance(e, ast.Name) and e.id == 'verb':
                res.append(None)
            else:
                res.append(lit(e))
        return res
    head_c, other_c = cand(iff.body), cand(iff.orelse)

    def coq_cands(cs):
        return coq_list('None' if c is None else 'Some %s' % coq_str(c) for c in cs)
    out.append('(* ombott.py: Ombott.to_route candidate lists; None stands for the request verb *)')
    out.append('Definition cands_head : list (option (list N)) := %s.' % coq_cands(head_c))
    out.append('Definition cands_other : list (option (list N)) := %s.' % coq_cands(other_c))

    # wsgi: the no-body test
    fn = find_func(cls, 'wsgi')
    nobody = None
    for n in ast.walk(fn):
        if isinstance(n, ast.If):
            s = ast.unparse(n.test)
            if 'REQUEST_METHOD' in s and '_status_code' in s:
                nobody = n.test
    if nobody is None:
        raise Shape('wsgi: no-body test not found')
    s = ast.unparse(nobody)
    out.append('(* ombott.py: Ombott.wsgi no-body test: %s *)' % s.replace('*)', '* )'))
    # supported shapes: "response._status_code in {..}" and/or "100 <= response._status_code < 200"
    sets = []
    ranges = []
    head = False
    for n in ast.walk(nobody):
        if isinstance(n, ast.Compare):
            u = ast.unparse(n)
            if len(n.ops) == 1 and isinstance(n.ops[0], ast.In) and '_status_code' in ast.unparse(n.left):
                sets.extend(sorted(lit(n.comparators[0])))
            elif len(n.ops) == 2 and '_status_code' in ast.unparse(n.comparators[0]):
                lo, hi = lit(n.left), lit(n.comparators[1])
                lo = lo if isinstance(n.ops[0], ast.LtE) else lo + 1
                hi = hi if isinstance(n.ops[1], ast.LtE) else hi - 1
                ranges.append((lo, hi))
            elif "REQUEST_METHOD" in u and lit(n.comparators[0]) == 'HEAD' and isinstance(n.ops[0], ast.Eq):
                head = True
            else:
                raise Shape('wsgi: unsupported comparison in no-body test: ' + u)
    if not head:
        raise Shape('wsgi: HEAD test missing')
    if not isinstance(nobody, ast.BoolOp) or not isinstance(nobody.op, ast.Or):
        raise Shape('wsgi: no-body test is not a disjunction')
    out.append('Definition nobody_codes : list Z := %s.' % coq_list('%d%%Z' % c for c in sets))
    out.append('Definition nobody_ranges : list (Z * Z) := %s.' % coq_list('(%d%%Z, %d%%Z)' % r for r in ranges))

    cfg = find_class(tree, 'DefaultConfig')
    em = class_assign(cfg, 'errors_map')
    if not isinstance(em, ast.Dict):
        raise Shape('errors_map not a dict')
    rows = []
    for k, v in zip(em.keys, em.values):
        kname = ast.unparse(k).split('.')[-1]
        if not (isinstance(v, ast.Call) and ast.unparse(v.func) == 'HTTPError'):
            raise Shape('errors_map value shape')
        rows.append((kname, lit(v.args[0]), lit(v.args[1])))
    out.append('(* ombott.py: DefaultConfig.errors_map: exception class name -> (status, body) *)')
    out.append('Definition errors_map : list (list N * (Z * list N)) := %s.' %
               coq_list('(%s, (%d%%Z, %s))' % (coq_str(a), b, coq_str(c)) for a, b, c in rows))
    mm = class_assign(cfg, 'max_memfile_size')
    out.append('Definition max_memfile_size : Z := %d%%Z.' % eval(compile(ast.Expression(mm), '<c>', 'eval'), {}))
    out.append('Definition catchall_default : bool := %s.' % ('true' if lit(class_assign(cfg, 'catchall')) else 'false'))
    out.append('Definition debug_default : bool := %s.' % ('true' if lit(class_assign(cfg, 'debug')) else 'false'))


def gen_helpers(out):
    tree, _ = parse('ombott/common_helpers.py')
    fn = find_func(tree, '_hval')
    forb = []
    types = None
    for n in ast.walk(fn):
        if isinstance(n, ast.Compare) and len(n.ops) == 1 and isinstance(n.ops[0], ast.In) \
                and isinstance(n.comparators[0], ast.Name) and n.comparators[0].id == 'value':
            forb.append(lit(n.left))
        if isinstance(n, ast.Call) and ast.unparse(n.func) == 'isinstance' and ast.unparse(n.args[0]) == 'value':
            types = [ast.unparse(e) for e in n.args[1].elts]
    if not forb or types is None:
        raise Shape('_hval shape')
    out.append('(* common_helpers.py: _hval *)')
    out.append('Definition hval_forbidden : list N := %s.' % coq_list('%d%%N' % ord(c) for c in forb))
    out.append('Definition hval_types : list (list N) := %s.' % coq_list(coq_str(t) for t in types))
    # html_escape: chain of .replace(a, b)
    fn = find_func(tree, 'html_escape')
    ret = [n for n in fn.body if isinstance(n, ast.Return)]
    if len(ret) != 1:
        raise Shape('html_escape shape')
    chain = []
    node = ret[0].value
    while isinstance(node, ast.Call) and isinstance(node.func, ast.Attribute) and node.func.attr == 'replace':
        chain.append((lit(node.args[0]), lit(node.args[1])))
        node = node.func.value
    if not (isinstance(node, ast.Name) and node.id == 'string'):
        raise Shape('html_escape: not a pure replace chain')
    chain.reverse()
    out.append('Definition html_escape_chain : list (N * list N) := %s.' %
               coq_list('(%d%%N, %s)' % (ord(a), coq_str(b)) for a, b in chain))


def gen_errpage(out):
    p = os.path.join(REPO, 'ombott/error.html')
    with open(p) as f:
        lines = [ln.strip() for ln in f.readlines()]
    # replicate error_render.render's line selection: style block copied verbatim, others formatted
    import string
    fmt = string.Formatter()
    segs = []
    skip = ''
    for ln in lines:
        if skip:
            if ln.startswith(skip):
                skip = ''
            segs.append(('L', ln))
        elif ln.startswith('<style'):
            skip = '</style'
            segs.append(('L', ln))
        else:
            for lit_text, field, spec, conv in fmt.parse(ln):
                if lit_text:
                    segs.append(('L', lit_text))
                if field is not None:
                    if spec or conv:
                        raise Shape('error.html: format spec/conversion used')
                    segs.append(('F', field))
    # merge literals
    merged = []
    for k, v in segs:
        if k == 'L' and merged and merged[-1][0] == 'L':
            merged[-1] = ('L', merged[-1][1] + v)
        else:
            merged.append((k, v))
    out.append('(* error.html as render() consumes it: literal text and fields *)')
    out.append('Inductive tseg := TLit (s : list N) | TField (name : list N).')
    out.append('Definition error_template : list tseg := %s.' %
               coq_list(('TLit %s' if k == 'L' else 'TField %s') % coq_str(v) for k, v in merged))
    tree, _ = parse('ombott/error_render.py')
    fn = find_func(tree, 'render')
    src = ast.unparse(fn)
    # ctx keys and how url is fed
    ctx = None
    for n in ast.walk(fn):
        if isinstance(n, ast.Assign) and ast.unparse(n.targets[0]) == 'ctx':
            ctx = n.value
    if ctx is None or not (isinstance(ctx, ast.Call) and ast.unparse(ctx.func) == 'dict'):
        raise Shape('render: ctx shape')
    kws = {k.arg: ast.unparse(k.value) for k in ctx.keywords}
    out.append('(* render ctx: %s *)' % kws)
    out.append('Definition ctx_keys : list (list N) := %s.' % coq_list(coq_str(k) for k in kws))
    out.append('Definition ctx_url_is_repr_of_escaped : bool := %s.' %
               ('true' if kws.get('url') == 'repr(clean_url)' and 'clean_url = sanitize_html.escape(url)' in src else 'false'))
    out.append('Definition ctx_forbidden_text : list N := %s.' % coq_str('-] Forbidden [-'))
    out.append('Definition ctx_hides_when_not_debug : bool := %s.' %
               ("true" if "ex = traceback = '-] Forbidden [-'" in src and kws.get('exception') == 'ex'
                and kws.get('traceback') == 'traceback' else 'false'))


def gen_router(out):
    tree, _ = parse('ombott/router/radidict.py')
    cls = find_class(tree, 'RadiDict')
    init = find_func(cls, '__init__')
    defaults = {a.arg: lit(d) for a, d in zip(init.args.kwonlyargs, init.args.kw_defaults)}
    out.append('(* radidict.py *)')
    out.append('Definition param_token : N := %d%%N.' % ord(defaults['param_token']))
    out.append('Definition path_sep : N := %d%%N.' % ord(defaults['path_sep']))
    tree, src = parse('ombott/router/filter_factory.py')
    cls = find_class(tree, 'FilterFactory')
    filt = class_assign(cls, 'filters')
    if not isinstance(filt, ast.Dict):
        raise Shape('filters table')
    rows = []
    for k, v in zip(filt.keys, filt.values):
        rows.append((lit(k), ast.unparse(v)))
    out.append('Definition filter_table_src : list (list N * list N) := %s.' %
               coq_list('(%s, %s)' % (coq_str(a), coq_str(b)) for a, b in rows))


def gen_body(out):
    tree, _ = parse('ombott/request_pkg/multipart.py')
    pat = module_assign(tree, 'end_headers_patt')
    out.append('(* multipart.py / body_mixin.py regex source texts (pinned by the models that re-implement them) *)')
    out.append('Definition end_headers_patt_src : list N := %s.' % coq_str(lit(pat.args[0])))
    cls = find_class(tree, 'FieldStorage')
    out.append('Definition field_opt_patt_src : list N := %s.' % coq_str(lit(class_assign(cls, '_patt').args[0])))
    tree, _ = parse('ombott/request_pkg/body_mixin.py')
    out.append('Definition boundary_patt_src : list N := %s.' %
               coq_str(lit(module_assign(tree, 'MULTIPART_BOUNDARY_PATT').args[0])))


def gen_request(out):
    """request.py: BaseRequest._on_env_changed — which cached views an environ key invalidates;
    body_mixin.py: the cache key of BodyMixin._body and the shape of BodyMixin.body (cached object, rewound)."""
    tree, _ = parse('ombott/request_pkg/request.py')
    fn = find_func(find_class(tree, 'BaseRequest'), '_on_env_changed')
    args = [a.arg for a in fn.args.args]
    if len(args) != 3:
        raise Shape('_on_env_changed: expected (request, key, v)')
    keyname = args[1]
    body = [n for n in fn.body if not (isinstance(n, ast.Expr) and isinstance(n.value, ast.Constant))]
    consts = {}

    def tup(node):
        # a tuple of names, possibly built from local constant tuples with +
        if isinstance(node, ast.Name) and node.id in consts:
            return consts[node.id]
        if isinstance(node, ast.BinOp) and isinstance(node.op, ast.Add):
            return tup(node.left) + tup(node.right)
        return lit(node)
    # local constant tuples defined before the chain (e.g. a shared list of views) are resolved
    while (len(body) > 4 and isinstance(body[1], ast.Assign) and len(body[1].targets) == 1
           and isinstance(body[1].targets[0], ast.Name)):
        consts[body[1].targets[0].id] = tup(body[1].value)
        del body[1]
    # todelete = () ; if/elif chain ; env = request.environ ; [env.pop(PREFIX + key, None) for key in todelete]
    if not (len(body) == 4 and isinstance(body[0], ast.Assign) and lit(body[0].value) == ()
            and isinstance(body[1], ast.If) and isinstance(body[2], ast.Assign) and isinstance(body[3], ast.Expr)):
        raise Shape('_on_env_changed: unexpected statement sequence')
    var = body[0].targets[0].id
    table = []

    def walk(node):
        t = node.test
        if (isinstance(t, ast.Compare) and len(t.ops) == 1 and isinstance(t.ops[0], ast.Eq)
                and isinstance(t.left, ast.Name) and t.left.id == keyname):
            ent = (lit(t.comparators[0]), False)
        elif (isinstance(t, ast.Call) and isinstance(t.func, ast.Attribute) and t.func.attr == 'startswith'
              and isinstance(t.func.value, ast.Name) and t.func.value.id == keyname and len(t.args) == 1):
            ent = (lit(t.args[0]), True)
        else:
            raise Shape('_on_env_changed: unexpected test %s' % ast.dump(t)[:80])
        if not (len(node.body) == 1 and isinstance(node.body[0], ast.Assign)
                and isinstance(node.body[0].targets[0], ast.Name) and node.body[0].targets[0].id == var):
            raise Shape('_on_env_changed: branch is not a single assignment to %s' % var)
        names = tup(node.body[0].value)
        if not (isinstance(names, tuple) and all(isinstance(x, str) for x in names)):
            raise Shape('_on_env_changed: branch value is not a tuple of names')
        table.append((ent, names))
        if node.orelse:
            if len(node.orelse) == 1 and isinstance(node.orelse[0], ast.If):
                walk(node.orelse[0])
            else:
                raise Shape('_on_env_changed: else branch')
    walk(body[1])
    comp = body[3].value
    if not (isinstance(comp, ast.ListComp) and len(comp.generators) == 1
            and isinstance(comp.generators[0].iter, ast.Name) and comp.generators[0].iter.id == var
            and not comp.generators[0].ifs
            and isinstance(comp.elt, ast.Call) and isinstance(comp.elt.func, ast.Attribute) and comp.elt.func.attr == 'pop'
            and isinstance(comp.elt.args[0], ast.BinOp) and isinstance(comp.elt.args[0].op, ast.Add)):
        raise Shape('_on_env_changed: unexpected invalidation loop')
    prefix = lit(comp.elt.args[0].left)
    out.append('(* request.py: BaseRequest._on_env_changed: ((environ key, is-prefix-test), cached views dropped), first match wins *)')
    out.append('Definition env_changed_table : list ((list N * bool) * list (list N)) := %s.' %
               coq_list('((%s, %s), %s)' % (coq_str(k), 'true' if pre else 'false', coq_list(coq_str(n) for n in names))
                        for (k, pre), names in table))
    out.append('Definition env_cache_prefix : list N := %s.' % coq_str(prefix))
    # body_mixin.py: @cache_in('environ[ ombott.request.body ]', read_only=True) def _body
    tree, _ = parse('ombott/request_pkg/body_mixin.py')
    cls = find_class(tree, 'BodyMixin')
    fb = find_func(cls, '_body')
    keys = [lit(d.args[0]) for d in fb.decorator_list
            if isinstance(d, ast.Call) and isinstance(d.func, ast.Name) and d.func.id == 'cache_in' and d.args]
    if len(keys) != 1 or not (keys[0].startswith('environ[') and keys[0].endswith(']')):
        raise Shape('BodyMixin._body: cache_in decorator not found')
    out.append('(* body_mixin.py: BodyMixin._body is cached under environ[...] *)')
    out.append('Definition body_cache_key : list N := %s.' % coq_str(keys[0][len('environ['):-1].strip()))
    # def body(self): ret = self._body; ret.seek(0); return ret
    bp = find_func(cls, 'body')
    st = [n for n in bp.body if not (isinstance(n, ast.Expr) and isinstance(n.value, ast.Constant))]
    ok = (len(st) == 3 and isinstance(st[0], ast.Assign) and isinstance(st[0].value, ast.Attribute)
          and st[0].value.attr == '_body' and isinstance(st[1], ast.Expr) and isinstance(st[1].value, ast.Call)
          and isinstance(st[1].value.func, ast.Attribute) and st[1].value.func.attr == 'seek'
          and [lit(a) for a in st[1].value.args] == [0] and isinstance(st[2], ast.Return))
    out.append('(* body_mixin.py: BodyMixin.body is "the cached _body, seek(0), return it" *)')
    out.append('Definition body_property_rewinds_cached : bool := %s.' % ('true' if ok else 'false'))


def gen_errtexts(out):
    """the texts of the errors the framework itself creates (status code, body) and of the last-resort page"""
    tree, _ = parse('ombott/ombott.py')
    cls = find_class(tree, 'Ombott')
    rows = []
    prefix = None
    for fname in ('_handle', '_cast', 'handler'):
        fn = find_func(cls, fname)
        for n in ast.walk(fn):
            if isinstance(n, ast.Call) and ast.unparse(n.func) == 'HTTPError' and len(n.args) >= 2:
                code, body = n.args[0], n.args[1]
                if isinstance(code, ast.Constant) and isinstance(code.value, int):
                    if isinstance(body, ast.Constant) and isinstance(body.value, str):
                        rows.append((fname, code.value, body.value))
                    elif isinstance(body, ast.JoinedStr):
                        lit0 = body.values[0]
                        if not (isinstance(lit0, ast.Constant) and len(body.values) == 2
                                and ast.unparse(body.values[1].value) == 'type(first)'):
                            raise Shape('%s: unexpected f-string error body %s' % (fname, ast.unparse(body)))
                        prefix = (code.value, lit0.value)
                    else:
                        raise Shape('%s: HTTPError body is neither a literal nor the known f-string: %s'
                                    % (fname, ast.unparse(body)))
    if prefix is None:
        raise Shape('_cast: unsupported-type error not found')
    rtree, _ = parse('ombott/router/radirouter.py')
    res = find_func(find_class(rtree, 'RadiRouter'), 'resolve')
    for n in ast.walk(res):
        if isinstance(n, ast.List) and len(n.elts) == 3 and isinstance(n.elts[0], ast.Constant) \
                and isinstance(n.elts[0].value, int) and isinstance(n.elts[1], ast.Constant):
            rows.append(('resolve', n.elts[0].value, n.elts[1].value))
    if not any(r[1] == 404 for r in rows) or not any(r[1] == 405 for r in rows):
        raise Shape('resolve: 404/405 triples not found')
    out.append('(* errors the framework creates itself: (where, status code, body text) *)')
    out.append('Definition framework_errors : list (list N * (Z * list N)) := %s.' %
               coq_list('(%s, (%d%%Z, %s))' % (coq_str(a), b, coq_str(c)) for a, b, c in rows))
    out.append('Definition unsupported_type_error : Z * list N := (%d%%Z, %s).' % (prefix[0], coq_str(prefix[1])))
    # last-resort page
    w = find_func(cls, 'wsgi')
    src = ast.unparse(w)
    strs = [n.value for n in ast.walk(w) if isinstance(n, ast.Constant) and isinstance(n.value, str)]
    crit = [x for x in strs if 'Critical error' in x]
    dbg = [x for x in strs if '<h2>Error:</h2>' in x]
    st = [x for x in strs if x.startswith('500 ')]
    if len(crit) != 1 or len(dbg) != 1 or len(st) != 1:
        raise Shape('wsgi: last-resort page texts not found')
    if "html_escape(environ.get('PATH_INFO', '/'))" not in src:
        raise Shape('wsgi: last-resort page does not escape PATH_INFO the expected way')
    out.append('Definition critical_page_fmt : list N := %s.' % coq_str(crit[0]))
    out.append('Definition critical_debug_fmt : list N := %s.' % coq_str(dbg[0]))
    out.append('Definition critical_status_line : list N := %s.' % coq_str(st[0]))
    hdrs = [n for n in ast.walk(w) if isinstance(n, ast.Assign) and ast.unparse(n.targets[0]) == 'headers']
    if len(hdrs) != 1:
        raise Shape('wsgi: last-resort headers')
    hv = lit(hdrs[0].value)
    out.append('Definition critical_headers : list (list N * list N) := %s.' %
               coq_list('(%s, %s)' % (coq_str(a), coq_str(b)) for a, b in hv))
    # the JSON branch of default_error_handler
    d = find_func(cls, 'default_error_handler')
    dsrc = ast.unparse(d)
    out.append('Definition json_error_content_type : list N := %s.' %
               coq_str('application/json' if "['Content-Type'] = 'application/json'" in dsrc else ''))
    keys = []
    for n in ast.walk(d):
        if isinstance(n, ast.Call) and ast.unparse(n.func) == 'dict':
            keys = [k.arg for k in n.keywords]
    if not keys:
        raise Shape('default_error_handler: json dict not found')
    out.append('Definition json_error_keys : list (list N) := %s.' % coq_list(coq_str(k) for k in keys))
    # status lines the framework relies on (http.client.responses is CPython data: pinned here from the running interpreter)
    import http.client
    codes = sorted({r[1] for r in rows} | {prefix[0], 413, 400})
    out.append('Definition status_lines : list (Z * list N) := %s.' %
               coq_list('(%d%%Z, %s)' % (c, coq_str('%d %s' % (c, http.client.responses[c]))) for c in codes))


def gen_passthrough(out):
    """ombott.py: the `except <classes>: raise` clauses of Ombott._handle, Ombott._cast and Ombott.wsgi — the
    exception classes that are passed on to the server instead of becoming an error page (cluster wsgiD1, C03).
    The classes may be written as a tuple of names, one name, or the name of a module-level tuple constant."""
    tree, _ = parse('ombott/ombott.py')
    cls = find_class(tree, 'Ombott')

    def names_of(node):
        if isinstance(node, ast.Tuple):
            out_ = []
            for e in node.elts:
                out_ += names_of(e)
            return out_
        if isinstance(node, ast.Attribute):
            return [node.attr]
        if isinstance(node, ast.Name):
            try:
                return names_of(module_assign(tree, node.id))      # a module-level constant naming the tuple
            except Shape:
                return [node.id]
        raise Shape('pass-through clause: unsupported exception expression %s' % ast.dump(node)[:80])

    out.append('(* ombott.py: exception classes re-raised by the bare `except ...: raise` clauses (by class name; an '
               'except clause also matches subclasses) *)')
    for fname in ('_handle', '_cast', 'wsgi'):
        fn = find_func(cls, fname)
        found = []
        for n in ast.walk(fn):
            if isinstance(n, ast.ExceptHandler) and n.type is not None and len(n.body) == 1 \
                    and isinstance(n.body[0], ast.Raise) and n.body[0].exc is None:
                found.append(names_of(n.type))
        if len(found) != 1:
            raise Shape('%s: expected exactly one `except ...: raise` clause, found %d' % (fname, len(found)))
        out.append('Definition passthrough_%s : list (list N) := %s.'
                   % (fname.strip('_'), coq_list(coq_str(x) for x in found[0])))


def generate():
    out = ['(* GENERATED by tools/gen_constants.py from the current working tree of the repository - do not edit *)',
           'From Coq Require Import List ZArith NArith.', 'Import ListNotations.', '']
    for g in (gen_response, gen_ombott, gen_helpers, gen_errpage, gen_router, gen_body, gen_request, gen_errtexts,
              gen_passthrough):
        g(out)
        out.append('')
    return '\n'.join(out)


def main():
    try:
        text = generate()
    except (Shape, SyntaxError, KeyError, IndexError, AttributeError, TypeError, ValueError, OSError) as e:
        sys.stderr.write('gen_constants: FAIL-CLOSED: %s: %s\n' % (type(e).__name__, e))
        return 2
    out = os.path.normpath(OUT)
    old = None
    if os.path.exists(out):
        with open(out) as f:
            old = f.read()
    if old != text:
        os.makedirs(os.path.dirname(out), exist_ok=True)
        with open(out, 'w') as f:
            f.write(text)
        print('gen_constants: wrote', out)
    # statements of small loops translated into Gallina (tools/gen_loops.py) -> GenLoops.v beside Gen.v
    import gen_loops
    try:
        ltext = gen_loops.generate(parse)
    except (gen_loops.Shape, Shape, SyntaxError, KeyError, IndexError, AttributeError, TypeError, ValueError, OSError) as e:
        sys.stderr.write('gen_loops: FAIL-CLOSED: %s: %s\n' % (type(e).__name__, e))
        return 2
    lout = os.path.join(os.path.dirname(out), 'GenLoops.v')
    lold = None
    if os.path.exists(lout):
        with open(lout) as f:
            lold = f.read()
    if lold != ltext:
        with open(lout, 'w') as f:
            f.write(ltext)
        print('gen_constants: wrote', lout)
    return 0


if __name__ == '__main__':
    sys.exit(main())
