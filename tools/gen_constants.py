#!/venv/bin/python
"""gen_constants.py — fail-closed ast extractor: /repo source -> coq/gen/Gen.v

Reads the declarative facts the theorems depend on (constant tables, the
candidate-method lists, the no-body status set, forbidden header characters,
the html-escape chain, the error template, regex source texts ...) out of the
*current* working tree of /repo and emits them as Gallina definitions, so that
the theorems in coq/props are re-checked against what the code says now.
If the expected shape is not found the extractor raises (exit 2) and the check
treats that like a broken proof obligation.  Gen.v is only rewritten when its
content changes.
"""
import ast
import os
import sys

sys.path.insert(0, os.path.dirname(os.path.abspath(__file__)))

if not os.environ.get('VERIF_REPO'):
    os.environ.pop('VERIF_REPO', None)      # an empty value means unset, also for the harness modules and children
REPO = os.environ.get('VERIF_REPO') or '/repo'
OUT = os.environ.get('VERIF_GEN_OUT') or os.path.join(os.path.dirname(os.path.abspath(__file__)), '..', 'coq', 'gen', 'Gen.v')


class Shape(Exception):
    pass


def parse(rel):
    p = os.path.join(REPO, rel)
    with open(p, encoding='utf8') as f:
        src = f.read()
    tree = ast.parse(src, p)
    tree._verif_rel = rel            # lets find_func follow a definition that moved (see _runtime_def)
    return tree, src


def coq_str(s):
    if isinstance(s, bytes):
        cps = list(s)
    else:
        cps = [ord(c) for c in s]
    return '[' + '; '.join('%d%%N' % c for c in cps) + ']'


def coq_list(items):
    return '[' + '; '.join(items) + ']'


def find_class(tree, name):
    for n in ast.walk(tree):
        if isinstance(n, ast.ClassDef) and n.name == name:
            n._verif_rel = getattr(tree, '_verif_rel', None)
            n._verif_cls = name
            return n
    raise Shape('class %s not found' % name)


def _runtime_def(node, name):
    """the definition of function `name` as the *running* module / class of `node` resolves it today: a method
    inherited from a (private) base class, or a function moved to another module and re-exported"""
    rel = getattr(node, '_verif_rel', None)
    if not rel:
        return None
    try:
        owner = rt(rel[:-3].replace('/', '.'))
        if getattr(node, '_verif_cls', None):
            owner = getattr(owner, node._verif_cls)
        obj = owner.__dict__.get(name) if isinstance(owner, type) else getattr(owner, name)
        if obj is None and isinstance(owner, type):
            for k in owner.__mro__[1:]:
                if name in k.__dict__:
                    obj = k.__dict__[name]
                    break
        if isinstance(obj, (staticmethod, classmethod)):
            obj = obj.__func__
        if isinstance(obj, property):
            obj = obj.fget
        if obj is None:
            return None
        return ast_of(obj)[0]
    except Shape:
        return None
    except Exception:
        return None


def find_func(tree, name):
    for n in ast.walk(tree):
        if isinstance(n, (ast.FunctionDef,)) and n.name == name:
            return n
    n = _runtime_def(tree, name)
    if n is not None:
        return n
    raise Shape('function %s not found' % name)


def class_assign(cls, name):
    for n in cls.body:
        if isinstance(n, ast.Assign) and len(n.targets) == 1 and isinstance(n.targets[0], ast.Name) \
                and n.targets[0].id == name:
            return n.value
    raise Shape('%s.%s not found' % (cls.name, name))


def module_assign(tree, name):
    for n in tree.body:
        if isinstance(n, ast.Assign) and len(n.targets) == 1 and isinstance(n.targets[0], ast.Name) \
                and n.targets[0].id == name:
            return n.value
    raise Shape('module constant %s not found' % name)


def lit(node):
    try:
        return ast.literal_eval(node)
    except Exception as e:
        raise Shape('not a literal: %s' % ast.dump(node)[:80]) from e

# ---- runtime access: the modules of the checkout under REPO, imported in this (fresh) translator process.
# Declarative facts (tables, compiled regular expressions, defaults) are read from the imported objects, so
# that HOW a constant is spelled in the source (dict literal vs dict(...), hoisted names, split literals)
# does not matter; statement shapes are still read from the AST, with names resolved through the module.
_RT = {}


def rt(modname):
    if modname not in _RT:
        if REPO not in sys.path:
            sys.path.insert(0, REPO)
        import importlib
        for k in [k for k in sys.modules if k == 'ombott' or k.startswith('ombott.')]:
            if not getattr(sys.modules[k], '__file__', '').startswith(os.path.realpath(REPO)) and \
                    not getattr(sys.modules[k], '__file__', '').startswith(REPO):
                del sys.modules[k]
        try:
            _RT[modname] = importlib.import_module(modname)
        except Exception as e:      # the tree does not import: nothing can be extracted from it
            raise Shape('cannot import %s from %s: %s: %s' % (modname, REPO, type(e).__name__, e))
        f = getattr(_RT[modname], '__file__', '') or ''
        if not os.path.realpath(f).startswith(os.path.realpath(REPO)):
            raise Shape('%s was imported from %s, not from %s' % (modname, f, REPO))
    return _RT[modname]


def val(node, ns=None):
    """value of a constant expression: a literal, or an expression over names of the given namespace
    (module globals, class attributes, local constants) — no attribute access on request data, no I/O"""
    try:
        return ast.literal_eval(node)
    except Exception:
        pass
    if ns is None:
        raise Shape('not a literal: %s' % ast.dump(node)[:80])
    for n in ast.walk(node):
        if isinstance(n, (ast.Lambda, ast.Await, ast.Yield, ast.YieldFrom, ast.NamedExpr)):
            raise Shape('not a constant expression: %s' % ast.dump(node)[:80])
    try:
        return eval(compile(ast.Expression(node), '<gen_constants>', 'eval'), dict(ns))
    except Exception as e:
        raise Shape('cannot evaluate %s: %s' % (ast.unparse(node)[:80], e)) from e


def local_consts(fn, ns):
    """simple `name = <constant expression>` assignments at the top level of a function body, in order"""
    loc = dict(ns)
    for st in fn.body:
        if isinstance(st, ast.Assign) and len(st.targets) == 1 and isinstance(st.targets[0], ast.Name):
            try:
                loc[st.targets[0].id] = val(st.value, loc)
            except Shape:
                pass
    return loc


def ast_of(func):
    """(AST of a function object's definition, its global namespace) — wherever in the package it is defined today
    (a function moved to another module and re-exported under the old name is followed)"""
    import inspect
    import textwrap
    func = inspect.unwrap(func)
    try:
        src = textwrap.dedent(inspect.getsource(func))
        node = ast.parse(src).body[0]
    except (OSError, TypeError, SyntaxError, IndexError) as e:
        raise Shape('no source for %r: %s' % (func, e))
    if not isinstance(node, (ast.FunctionDef,)):
        raise Shape('%r is not defined by a def statement' % (func,))
    f = inspect.getsourcefile(func) or ''
    if not os.path.realpath(f).startswith(os.path.realpath(REPO)):
        raise Shape('%r is defined outside the checkout (%s)' % (func, f))
    return node, dict(func.__globals__)


FAILED = []          # (group, message): definitions that could not be extracted; only their dependants break


def group(name):
    """decorator: a group of definitions extracted together; a failure drops only this group from Gen.v"""
    def deco(f):
        def run(out):
            part = []
            try:
                f(part)
            except (Shape, SyntaxError, KeyError, IndexError, AttributeError, TypeError, ValueError, OSError) as e:
                FAILED.append((name, '%s: %s' % (type(e).__name__, e)))
                out.append('(* group %s: NOT EXTRACTED (fail-closed): %s *)'
                           % (name, str(e).replace('*)', '* )').replace('(*', '( *')[:300]))
                return
            out.extend(part)
        run.__name__ = f.__name__
        return run
    return deco


@group('response.tables')
def gen_response(out):
    cls = rt('ombott.response').BaseResponse
    bad = cls.bad_headers
    if not (isinstance(bad, dict) and all(isinstance(k, int) and isinstance(v, (set, frozenset))
                                          and all(isinstance(h, str) for h in v) for k, v in bad.items())):
        raise Shape('bad_headers shape')
    out.append('(* response.py: BaseResponse.bad_headers *)')
    out.append('Definition bad_headers : list (Z * list (list N)) :=')
    out.append('  ' + coq_list('(%d%%Z, %s)' % (k, coq_list(coq_str(h) for h in sorted(v)))
                               for k, v in sorted(bad.items())) + '.')
    dct = cls.default_content_type
    if not isinstance(dct, str) or not isinstance(cls.default_status, int):
        raise Shape('default_content_type / default_status')
    out.append('Definition default_content_type : list N := %s.' % coq_str(dct))
    out.append('Definition default_status : Z := %d%%Z.' % cls.default_status)


@group('response.blacklist_test')
def gen_response_blacklist(out):
    # headerlist: how the blacklist is consulted (the name test)
    tree, _ = parse('ombott/response.py')
    hl = find_func(find_class(tree, 'BaseResponse'), 'headerlist')
    src = ast.unparse(hl)
    if 'h[0].title() not in bad_headers' in src:
        cs = 'false'
    elif 'h[0] not in bad_headers' in src:
        cs = 'true'
    else:
        # shape not recognised: ask the code. A name stored in another letter case than the table's
        # (written into the underlying dict, bypassing the setters' normalisation) is dropped iff the test folds case
        mod = rt('ombott.response')
        probe = []
        for code, names in sorted(mod.BaseResponse.bad_headers.items()):
            for nm in sorted(names):
                r = mod.Response()
                r.status = code
                odd = nm.lower() if nm.lower() != nm else nm.upper()
                r.headers.dict[odd] = ['x']
                present = any(k == odd for k, _ in r.headerlist)
                probe.append(present)
        if not probe or len(set(probe)) != 1:
            raise Shape('headerlist: blacklist name test not recognised and probing is inconclusive')
        cs = 'true' if probe[0] else 'false'
    out.append('(* headerlist consults the per-status blacklist case-%s *)' % ('sensitively' if cs == 'true' else 'insensitively (h[0].title())'))
    out.append('Definition headerlist_blacklist_case_sensitive : bool := %s.' % cs)


def _to_route_ast():
    tree, _ = parse('ombott/ombott.py')
    cls = find_class(tree, 'Ombott')
    # to_route: if verb == 'HEAD': methods = [verb, 'GET', 'ANY'] else: methods = [verb, 'ANY']
    fn = find_func(cls, 'to_route')
    iff = [n for n in fn.body if isinstance(n, ast.If)]
    if len(iff) != 1:
        raise Shape('to_route: expected one if')
    iff = iff[0]
    t = iff.test
    if not (isinstance(t, ast.Compare) and isinstance(t.left, ast.Name) and t.left.id == 'verb'
            and len(t.ops) == 1 and isinstance(t.ops[0], ast.Eq) and lit(t.comparators[0]) == 'HEAD'):
        raise Shape('to_route: test is not verb == HEAD')

    def cand(body):
        if len(body) != 1 or not isinstance(body[0], ast.Assign):
            raise Shape('to_route: branch shape')
        v = body[0].value
        if not isinstance(v, ast.List):
            raise Shape('to_route: candidates not a list')
        res = []
        for e in v.elts:
            if isinstance(e, ast.Name) and e.id == 'verb':
                res.append(None)
            else:
                res.append(lit(e))
        return res
    return cand(iff.body), cand(iff.orelse)


def _to_route_probe():
    """ask the code: which candidate lists does to_route hand to the router? (a spy router; probe verbs are
    strings no table can contain, so every occurrence of the verb itself is recognisable)"""
    mod = rt('ombott.ombott')
    seen = {}

    class Spy:
        def resolve(self, path, methods):
            seen['m'] = list(methods) if not isinstance(methods, str) else [methods]
            raise KeyError('spy')

    def ask(verb):
        app = mod.Ombott()
        app.router = Spy()
        seen.clear()
        try:
            app.to_route('/', verb)
        except Exception:
            pass
        if 'm' not in seen:
            raise Shape('to_route: probing did not reach router.resolve')
        return [None if m == verb else m for m in seen['m']]
    head = ask('HEAD')
    others = [ask(v) for v in ('GET', 'POST', 'PUT', 'DELETE', 'PATCH', 'OPTIONS', 'ANY', 'Xq7ProbeVerb')]
    others = [[('ANY' if (v == 'ANY' and m is None) else m) for m in o] for v, o in zip(
        ('GET', 'POST', 'PUT', 'DELETE', 'PATCH', 'OPTIONS', 'ANY', 'Xq7ProbeVerb'), others)]
    base = others[-1]
    # for verb ANY the verb itself and the fallback coincide: compare through the generic verb's shape
    for v, o in zip(('GET', 'POST', 'PUT', 'DELETE', 'PATCH', 'OPTIONS'), others[:-2]):
        if o != base:
            raise Shape('to_route: candidate list depends on the verb beyond the HEAD special case (%s: %s)' % (v, o))
    if not all(m is None or isinstance(m, str) for m in head + base):
        raise Shape('to_route: candidates are not method names')
    return head, base


@group('ombott.to_route')
def gen_to_route(out):
    try:
        head_c, other_c = _to_route_ast()
    except Shape:
        head_c, other_c = _to_route_probe()

    def coq_cands(cs):
        return coq_list('None' if c is None else 'Some %s' % coq_str(c) for c in cs)
    out.append('(* ombott.py: Ombott.to_route candidate lists; None stands for the request verb *)')
    out.append('Definition cands_head : list (option (list N)) := %s.' % coq_cands(head_c))
    out.append('Definition cands_other : list (option (list N)) := %s.' % coq_cands(other_c))


def _nobody_probe():
    """ask the code: for which status codes is the body of a GET response dropped? (a handler sets the status and
    returns one byte; every code 100..599 the status setter accepts is tried; HEAD must drop every body)"""
    import io
    mod = rt('ombott.ombott')

    def serve(code, method):
        app = mod.Ombott()

        @app.route('/p', method=['GET', 'HEAD'])
        def h():
            app.response.status = code
            return 'x'
        env = {'REQUEST_METHOD': method, 'PATH_INFO': '/p', 'QUERY_STRING': '', 'SERVER_NAME': 'l', 'SERVER_PORT': '80',
               'SERVER_PROTOCOL': 'HTTP/1.1', 'wsgi.url_scheme': 'http', 'wsgi.input': io.BytesIO(b''),
               'wsgi.errors': io.StringIO(), 'SCRIPT_NAME': ''}
        got = {}
        body = b''.join(app(env, lambda st, hd, ei=None: got.setdefault('st', st)))
        return got.get('st', ''), body
    dropped = []
    for code in range(100, 600):
        st, body = serve(code, 'GET')
        if not st.startswith('%d ' % code):
            continue                    # the setter refused the code (or the request failed): not informative
        if body == b'':
            dropped.append(code)
        elif body != b'x':
            raise Shape('wsgi: probing the no-body test gave an unexpected body for %d' % code)
    for code in (200, 404, 500):
        if serve(code, 'HEAD')[1] != b'':
            raise Shape('wsgi: probing: HEAD response with a body')
    ranges, singles, i = [], [], 0
    while i < len(dropped):
        j = i
        while j + 1 < len(dropped) and dropped[j + 1] == dropped[j] + 1:
            j += 1
        if j - i >= 2:
            ranges.append((dropped[i], dropped[j]))
        else:
            singles.extend(dropped[i:j + 1])
        i = j + 1
    return singles, ranges


@group('ombott.nobody_test')
def gen_nobody(out):
    try:
        _gen_nobody_ast(out)
    except Shape as e:
        del out[:]
        sets, ranges = _nobody_probe()
        out.append('(* ombott.py: Ombott.wsgi no-body test: obtained by probing every status code 100..599 '
                   '(source shape not recognised: %s) *)' % str(e).replace('*)', '* )').replace('(*', '( *')[:120])
        out.append('Definition nobody_codes : list Z := %s.' % coq_list('%d%%Z' % c for c in sets))
        out.append('Definition nobody_ranges : list (Z * Z) := %s.' % coq_list('(%d%%Z, %d%%Z)' % r for r in ranges))


def _gen_nobody_ast(out):
    tree, _ = parse('ombott/ombott.py')
    cls = find_class(tree, 'Ombott')
    ns = vars(rt('ombott.ombott'))
    # wsgi: the no-body test
    fn = find_func(cls, 'wsgi')
    nobody = None
    for n in ast.walk(fn):
        if isinstance(n, ast.If):
            s = ast.unparse(n.test)
            if 'REQUEST_METHOD' in s and '_status_code' in s:
                nobody = n.test
    if nobody is None:
        raise Shape('wsgi: no-body test not found')
    s = ast.unparse(nobody)
    out.append('(* ombott.py: Ombott.wsgi no-body test: %s *)' % s.replace('*)', '* )'))
    # supported shapes: "response._status_code in {..}" and/or "100 <= response._status_code < 200"
    sets = []
    ranges = []
    head = False
    for n in ast.walk(nobody):
        if isinstance(n, ast.Compare):
            u = ast.unparse(n)
            if len(n.ops) == 1 and isinstance(n.ops[0], ast.In) and '_status_code' in ast.unparse(n.left):
                sets.extend(sorted(val(n.comparators[0], ns)))
            elif len(n.ops) == 2 and '_status_code' in ast.unparse(n.comparators[0]):
                lo, hi = val(n.left, ns), val(n.comparators[1], ns)
                lo = lo if isinstance(n.ops[0], ast.LtE) else lo + 1
                hi = hi if isinstance(n.ops[1], ast.LtE) else hi - 1
                ranges.append((lo, hi))
            elif "REQUEST_METHOD" in u and val(n.comparators[0], ns) == 'HEAD' and isinstance(n.ops[0], ast.Eq):
                head = True
            else:
                raise Shape('wsgi: unsupported comparison in no-body test: ' + u)
    if not head:
        raise Shape('wsgi: HEAD test missing')
    if not isinstance(nobody, ast.BoolOp) or not isinstance(nobody.op, ast.Or):
        raise Shape('wsgi: no-body test is not a disjunction')
    if (not sets and not ranges) or any(isinstance(n, ast.Call) and 'environ' not in ast.unparse(n.func)
                                         for n in ast.walk(nobody)):
        raise Shape('wsgi: the status part of the no-body test is not written out in place')
    out.append('Definition nobody_codes : list Z := %s.' % coq_list('%d%%Z' % c for c in sets))
    out.append('Definition nobody_ranges : list (Z * Z) := %s.' % coq_list('(%d%%Z, %d%%Z)' % r for r in ranges))


@group('ombott.config')
def gen_config(out):
    mod = rt('ombott.ombott')
    cfg = mod.DefaultConfig
    em = cfg.errors_map
    if not isinstance(em, dict):
        raise Shape('errors_map not a dict')
    rows = []
    for k, v in em.items():
        if not (isinstance(k, type) and isinstance(v, mod.HTTPError)):
            raise Shape('errors_map entry shape')
        if not (isinstance(v.status_code, int) and isinstance(v.body, str)):
            raise Shape('errors_map value shape')
        rows.append((k.__name__, v.status_code, v.body))
    out.append('(* ombott.py: DefaultConfig.errors_map: exception class name -> (status, body) *)')
    out.append('Definition errors_map : list (list N * (Z * list N)) := %s.' %
               coq_list('(%s, (%d%%Z, %s))' % (coq_str(a), b, coq_str(c)) for a, b, c in rows))
    if not isinstance(cfg.max_memfile_size, int):
        raise Shape('max_memfile_size')
    out.append('Definition max_memfile_size : Z := %d%%Z.' % cfg.max_memfile_size)
    out.append('Definition catchall_default : bool := %s.' % ('true' if cfg.catchall else 'false'))
    out.append('Definition debug_default : bool := %s.' % ('true' if cfg.debug else 'false'))


def gen_ombott(out):
    gen_to_route(out)
    gen_nobody(out)
    gen_config(out)


HVAL_ORDER = ['\n', '\r', '\0']
HVAL_TYPE_ORDER = ['str', 'int', 'float', 'bool']


@group('helpers.hval')
def gen_hval(out):
    mod = rt('ombott.common_helpers')
    forb = []
    types = None
    try:
        fn, g = ast_of(mod._hval)
        ns = local_consts(fn, g)
        for n in ast.walk(fn):
            if isinstance(n, ast.Compare) and len(n.ops) == 1 and isinstance(n.ops[0], ast.In) \
                    and isinstance(n.comparators[0], ast.Name) and n.comparators[0].id == 'value':
                c = val(n.left, ns)
                if not (isinstance(c, str) and len(c) == 1):
                    raise Shape('_hval: forbidden character')
                forb.append(c)
            if isinstance(n, ast.Call) and ast.unparse(n.func) == 'isinstance' and ast.unparse(n.args[0]) == 'value':
                tv = val(n.args[1], ns)
                tv = tv if isinstance(tv, tuple) else (tv,)
                types = [t.__name__ for t in tv]
        if not forb or types is None:
            raise Shape('_hval shape')
    except Shape:
        # shape not recognised (e.g. the tests became a loop over a constant): ask the code.
        # Every code point is probed alone inside an ASCII value; every candidate type with a harmless value.
        f = mod._hval
        forb = []
        for cp in list(range(0, 0x3000)) + [0x2028, 0x2029, 0xFEFF, 0xFFFD, 0x10000, 0x10FFFF]:
            if 0xD800 <= cp <= 0xDFFF:
                continue
            try:
                f('a' + chr(cp) + 'b')
            except ValueError:
                forb.append(chr(cp))
        import decimal
        import fractions
        cands = [('str', 'x'), ('int', 7), ('float', 1.5), ('bool', True), ('bytes', b'x'), ('NoneType', None),
                 ('list', ['x']), ('tuple', ('x',)), ('dict', {}), ('complex', 1j), ('Decimal', decimal.Decimal(1)),
                 ('Fraction', fractions.Fraction(1, 2)), ('bytearray', bytearray(b'x')), ('object', object())]
        types = []
        for nm, v in cands:
            try:
                f(v)
                types.append(nm)
            except TypeError:
                pass
        if not forb or not types:
            raise Shape('_hval: probing found no forbidden character or no accepted type')
        forb = [c for c in HVAL_ORDER if c in forb] + sorted(c for c in forb if c not in HVAL_ORDER)
        types = [t for t in HVAL_TYPE_ORDER if t in types] + sorted(t for t in types if t not in HVAL_TYPE_ORDER)
    out.append('(* common_helpers.py: _hval *)')
    out.append('Definition hval_forbidden : list N := %s.' % coq_list('%d%%N' % ord(c) for c in forb))
    out.append('Definition hval_types : list (list N) := %s.' % coq_list(coq_str(t) for t in types))


HTML_ORDER = ['&', '<', '>', '"', "'"]


def _html_escape_probe():
    """ask the code: which single characters does html_escape rewrite, and is it a character-by-character
    map (the ampersands of the produced entities are not escaped again)?  Returns a replace chain that computes
    the same function: '&' first, then the other rewritten characters."""
    import random
    f = rt('ombott.common_helpers').html_escape
    mapping = {}
    for cp in list(range(0, 0x3000)) + [0xFF02, 0xFF06, 0xFF07, 0xFF1C, 0xFF1E, 0xFE64, 0xFE65, 0x10000]:
        if 0xD800 <= cp <= 0xDFFF:
            continue
        c = chr(cp)
        r = f(c)
        if r != c:
            mapping[c] = r
    if not mapping:
        raise Shape('html_escape: probing found no rewritten character')
    rng = random.Random(20260930)
    alphabet = list(mapping) + ['a', ' ', ';', '#', 'l', 't', 'm', 'p', '0', '3', '9', 'é']
    for _ in range(4000):
        t = ''.join(rng.choice(alphabet) for _ in range(rng.randrange(0, 12)))
        if f(t) != ''.join(mapping.get(c, c) for c in t):
            raise Shape('html_escape: not a character-by-character map (probe %r)' % t)
    order = [c for c in HTML_ORDER if c in mapping] + sorted(c for c in mapping if c not in HTML_ORDER)
    if any('&' in mapping[c] for c in mapping) and order[0] != '&' and '&' in mapping:
        raise Shape('html_escape: ampersand order')
    # as a replace chain the per-character map is: '&' first (if rewritten), then the rest — provided no
    # replacement text contains a LATER rewritten character (checked)
    for i, c in enumerate(order):
        for d in order[i + 1:]:
            if d in mapping[c]:
                raise Shape('html_escape: replacement of %r contains the later rewritten %r' % (c, d))
    return [(c, mapping[c]) for c in order]


@group('helpers.html_escape')
def gen_html_escape(out):
    try:
        _gen_html_escape_ast(out)
    except Shape as e:
        del out[:]
        chain = _html_escape_probe()
        out.append('(* html_escape: obtained by probing (source shape not recognised: %s) *)'
                   % str(e).replace('*)', '* )').replace('(*', '( *')[:120])
        out.append('Definition html_escape_chain : list (N * list N) := %s.' %
                   coq_list('(%d%%N, %s)' % (ord(a), coq_str(b)) for a, b in chain))


def _gen_html_escape_ast(out):
    # html_escape: chain of .replace(a, b), possibly split over several `name = ...replace(...)` statements
    fn, ns = ast_of(rt('ombott.common_helpers').html_escape)
    params = [a.arg for a in fn.args.args]
    if len(params) != 1:
        raise Shape('html_escape signature')
    body = [n for n in fn.body if not (isinstance(n, ast.Expr) and isinstance(n.value, ast.Constant))]
    bound = {}          # local name -> chain (list of replace pairs applied to the parameter so far)

    def chain_of(node):
        pairs = []
        while isinstance(node, ast.Call) and isinstance(node.func, ast.Attribute) and node.func.attr == 'replace':
            if len(node.args) != 2 or node.keywords:
                raise Shape('html_escape: replace with a count')
            pairs.append((val(node.args[0], ns), val(node.args[1], ns)))
            node = node.func.value
        if not isinstance(node, ast.Name):
            raise Shape('html_escape: not a pure replace chain')
        if node.id == params[0] and node.id not in bound:
            base = []
        elif node.id in bound:
            base = bound[node.id]
        else:
            raise Shape('html_escape: chain starts from %s' % node.id)
        pairs.reverse()
        return base + pairs
    chain = None
    for st in body:
        if isinstance(st, ast.Assign) and len(st.targets) == 1 and isinstance(st.targets[0], ast.Name):
            bound[st.targets[0].id] = chain_of(st.value)
        elif isinstance(st, ast.Return) and chain is None:
            chain = chain_of(st.value)
        else:
            raise Shape('html_escape shape')
    if not chain or not all(isinstance(a, str) and len(a) == 1 and isinstance(b, str) for a, b in chain):
        raise Shape('html_escape: chain of single-character replacements expected')
    out.append('Definition html_escape_chain : list (N * list N) := %s.' %
               coq_list('(%d%%N, %s)' % (ord(a), coq_str(b)) for a, b in chain))


def gen_helpers(out):
    gen_hval(out)
    gen_html_escape(out)


@group('errpage')
def gen_errpage(out):
    p = os.path.join(REPO, 'ombott/error.html')
    with open(p) as f:
        lines = [ln.strip() for ln in f.readlines()]
    # replicate error_render.render's line selection: style block copied verbatim, others formatted
    import string
    fmt = string.Formatter()
    segs = []
    skip = ''
    for ln in lines:
        if skip:
            if ln.startswith(skip):
                skip = ''
            segs.append(('L', ln))
        elif ln.startswith('<style'):
            skip = '</style'
            segs.append(('L', ln))
        else:
            for lit_text, field, spec, conv in fmt.parse(ln):
                if lit_text:
                    segs.append(('L', lit_text))
                if field is not None:
                    if spec or conv:
                        raise Shape('error.html: format spec/conversion used')
                    segs.append(('F', field))
    # merge literals
    merged = []
    for k, v in segs:
        if k == 'L' and merged and merged[-1][0] == 'L':
            merged[-1] = ('L', merged[-1][1] + v)
        else:
            merged.append((k, v))
    out.append('(* error.html as render() consumes it: literal text and fields *)')
    out.append('Inductive tseg := TLit (s : list N) | TField (name : list N).')
    out.append('Definition error_template : list tseg := %s.' %
               coq_list(('TLit %s' if k == 'L' else 'TField %s') % coq_str(v) for k, v in merged))
    tree, _ = parse('ombott/error_render.py')
    fn = find_func(tree, 'render')
    src = ast.unparse(fn)
    # ctx keys and how url is fed
    ctx = None
    for n in ast.walk(fn):
        if isinstance(n, ast.Assign) and ast.unparse(n.targets[0]) == 'ctx':
            ctx = n.value
    if ctx is None or not (isinstance(ctx, ast.Call) and ast.unparse(ctx.func) == 'dict'):
        raise Shape('render: ctx shape')
    kws = {k.arg: ast.unparse(k.value) for k in ctx.keywords}
    out.append('(* render ctx: %s *)' % kws)
    out.append('Definition ctx_keys : list (list N) := %s.' % coq_list(coq_str(k) for k in kws))
    out.append('Definition ctx_url_is_repr_of_escaped : bool := %s.' %
               ('true' if kws.get('url') == 'repr(clean_url)' and 'clean_url = sanitize_html.escape(url)' in src else 'false'))
    out.append('Definition ctx_forbidden_text : list N := %s.' % coq_str('-] Forbidden [-'))
    out.append('Definition ctx_hides_when_not_debug : bool := %s.' %
               ("true" if "ex = traceback = '-] Forbidden [-'" in src and kws.get('exception') == 'ex'
                and kws.get('traceback') == 'traceback' else 'false'))


@group('router.tokens')
def gen_router_tokens(out):
    import inspect
    cls = rt('ombott.router.radidict').RadiDict
    sig = inspect.signature(cls.__init__)
    pt, ps = sig.parameters['param_token'].default, sig.parameters['path_sep'].default
    if not (isinstance(pt, str) and len(pt) == 1 and isinstance(ps, str) and len(ps) == 1):
        raise Shape('RadiDict defaults')
    out.append('(* radidict.py *)')
    out.append('Definition param_token : N := %d%%N.' % ord(pt))
    out.append('Definition path_sep : N := %d%%N.' % ord(ps))


@group('router.filter_table')
def gen_filter_table(out):
    """the filter table as the running code presents it, independent of its spelling: per filter name the mask for
    no argument and for the argument 'a.b', which converter is applied on the way in ('int' / 'float' / 'none' /
    'other'), and what the out-formatter makes of sample values ('none' when there is no formatter)"""
    ff = rt('ombott.router.filter_factory').FilterFactory
    table = ff.filters
    if not isinstance(table, dict) or not all(isinstance(k, str) and callable(v) for k, v in table.items()):
        raise Shape('FilterFactory.filters is not a dict of factories')

    def s_(x):
        return x if isinstance(x, str) else ('' if x is None else repr(x))
    rows = []
    for name, fac in table.items():
        if name == 'rex':
            continue            # selector filters are outside the modelled fragment (harness excludes them)
        try:
            m0, fin0, fout0 = fac(None)
            m1, fin1, fout1 = fac('a.b')
        except Exception as e:
            raise Shape('filter %s: factory raised %s' % (name, e))
        kind = 'int' if fin0 is int else 'float' if fin0 is float else 'none' if fin0 is None else 'other'
        if fout0 is None:
            probes = 'none'
        else:
            vals = []
            for v in (5, '7', 2.5, '-03', 10.0):
                try:
                    vals.append(s_(fout0(v)))
                except Exception as e:
                    vals.append('!' + type(e).__name__)
            probes = '|'.join(vals)
        rows.append((name, s_(m0), s_(m1), kind, probes))
    out.append('(* filter_factory.py: FilterFactory.filters as the running code presents it: '
               '(name, mask(None), mask("a.b"), converter, out-formatter on 5|"7"|2.5|"-03"|10.0) *)')
    out.append('Definition filter_table : list (list N * (list N * list N * list N * list N)) := %s.' %
               coq_list('(%s, (%s, %s, %s, %s))' % tuple(coq_str(x) for x in r) for r in rows))


def gen_router(out):
    gen_router_tokens(out)
    gen_filter_table(out)


@group('body.regexes')
def gen_body(out):
    mp = rt('ombott.request_pkg.multipart')
    bm = rt('ombott.request_pkg.body_mixin')

    def patt(obj, what):
        p_ = getattr(obj, 'pattern', None)
        if not isinstance(p_, (str, bytes)):
            raise Shape('%s is not a compiled regular expression' % what)
        if getattr(obj, 'flags', 0) & ~32:     # re.UNICODE (32) is implied for str patterns
            raise Shape('%s carries flags %r' % (what, obj.flags))
        return p_
    out.append('(* multipart.py / body_mixin.py regex source texts (pinned by the models that re-implement them) *)')
    out.append('Definition end_headers_patt_src : list N := %s.' % coq_str(patt(mp.end_headers_patt, 'end_headers_patt')))
    out.append('Definition field_opt_patt_src : list N := %s.' % coq_str(patt(mp.FieldStorage._patt, 'FieldStorage._patt')))
    out.append('Definition boundary_patt_src : list N := %s.' %
               coq_str(patt(bm.MULTIPART_BOUNDARY_PATT, 'MULTIPART_BOUNDARY_PATT')))


@group('request.env_changed')
def gen_request(out):
    """request.py: BaseRequest._on_env_changed — which cached views an environ key invalidates;
    body_mixin.py: the cache key of BodyMixin._body and the shape of BodyMixin.body (cached object, rewound)."""
    fn, _g = ast_of(rt('ombott.request_pkg.request').BaseRequest._on_env_changed)
    args = [a.arg for a in fn.args.args]
    if len(args) != 3:
        raise Shape('_on_env_changed: expected (request, key, v)')
    keyname = args[1]

    def is_noise(n):
        # docstrings and diagnostics (logger.debug(...), logging.info(...), warnings.warn(...)) carry no behaviour
        if isinstance(n, ast.Expr) and isinstance(n.value, ast.Constant):
            return True
        if isinstance(n, ast.Expr) and isinstance(n.value, ast.Call) and isinstance(n.value.func, ast.Attribute) \
                and isinstance(n.value.func.value, ast.Name) \
                and n.value.func.value.id in ('logger', 'log', 'logging', '_log', '_logger', 'LOG', 'warnings'):
            return True
        if isinstance(n, ast.If) and all(is_noise(x) for x in n.body + n.orelse) \
                and not any(isinstance(x, (ast.Call, ast.NamedExpr, ast.Yield, ast.Await)) for x in ast.walk(n.test)):
            return True                 # `if todelete: logger.debug(...)`: a guard around diagnostics only
        return False
    body = [n for n in fn.body if not is_noise(n)]
    consts = {}

    def tup(node):
        # a tuple of names, possibly built from local constant tuples with +
        if isinstance(node, ast.Name) and node.id in consts:
            return consts[node.id]
        if isinstance(node, ast.BinOp) and isinstance(node.op, ast.Add):
            return tup(node.left) + tup(node.right)
        return lit(node)
    # local constant tuples defined before the chain (e.g. a shared list of views) are resolved
    while (len(body) > 4 and isinstance(body[1], ast.Assign) and len(body[1].targets) == 1
           and isinstance(body[1].targets[0], ast.Name)):
        consts[body[1].targets[0].id] = tup(body[1].value)
        del body[1]
    # todelete = () ; if/elif chain ; env = request.environ ; [env.pop(PREFIX + key, None) for key in todelete]
    if not (len(body) == 4 and isinstance(body[0], ast.Assign) and lit(body[0].value) == ()
            and isinstance(body[1], ast.If) and isinstance(body[2], ast.Assign) and isinstance(body[3], ast.Expr)):
        raise Shape('_on_env_changed: unexpected statement sequence')
    var = body[0].targets[0].id
    table = []

    def walk(node):
        t = node.test
        if (isinstance(t, ast.Compare) and len(t.ops) == 1 and isinstance(t.ops[0], ast.Eq)
                and isinstance(t.left, ast.Name) and t.left.id == keyname):
            ent = (lit(t.comparators[0]), False)
        elif (isinstance(t, ast.Call) and isinstance(t.func, ast.Attribute) and t.func.attr == 'startswith'
              and isinstance(t.func.value, ast.Name) and t.func.value.id == keyname and len(t.args) == 1):
            ent = (lit(t.args[0]), True)
        else:
            raise Shape('_on_env_changed: unexpected test %s' % ast.dump(t)[:80])
        if not (len(node.body) == 1 and isinstance(node.body[0], ast.Assign)
                and isinstance(node.body[0].targets[0], ast.Name) and node.body[0].targets[0].id == var):
            raise Shape('_on_env_changed: branch is not a single assignment to %s' % var)
        names = tup(node.body[0].value)
        if not (isinstance(names, tuple) and all(isinstance(x, str) for x in names)):
            raise Shape('_on_env_changed: branch value is not a tuple of names')
        table.append((ent, names))
        if node.orelse:
            if len(node.orelse) == 1 and isinstance(node.orelse[0], ast.If):
                walk(node.orelse[0])
            else:
                raise Shape('_on_env_changed: else branch')
    walk(body[1])
    comp = body[3].value
    if not (isinstance(comp, ast.ListComp) and len(comp.generators) == 1
            and isinstance(comp.generators[0].iter, ast.Name) and comp.generators[0].iter.id == var
            and not comp.generators[0].ifs
            and isinstance(comp.elt, ast.Call) and isinstance(comp.elt.func, ast.Attribute) and comp.elt.func.attr == 'pop'
            and isinstance(comp.elt.args[0], ast.BinOp) and isinstance(comp.elt.args[0].op, ast.Add)):
        raise Shape('_on_env_changed: unexpected invalidation loop')
    prefix = lit(comp.elt.args[0].left)
    out.append('(* request.py: BaseRequest._on_env_changed: ((environ key, is-prefix-test), cached views dropped), first match wins *)')
    out.append('Definition env_changed_table : list ((list N * bool) * list (list N)) := %s.' %
               coq_list('((%s, %s), %s)' % (coq_str(k), 'true' if pre else 'false', coq_list(coq_str(n) for n in names))
                        for (k, pre), names in table))
    out.append('Definition env_cache_prefix : list N := %s.' % coq_str(prefix))
    # body_mixin.py: @cache_in('environ[ ombott.request.body ]', read_only=True) def _body
    tree, _ = parse('ombott/request_pkg/body_mixin.py')
    cls = find_class(tree, 'BodyMixin')
    fb = find_func(cls, '_body')
    keys = [lit(d.args[0]) for d in fb.decorator_list
            if isinstance(d, ast.Call) and isinstance(d.func, ast.Name) and d.func.id == 'cache_in' and d.args]
    if len(keys) != 1 or not (keys[0].startswith('environ[') and keys[0].endswith(']')):
        raise Shape('BodyMixin._body: cache_in decorator not found')
    out.append('(* body_mixin.py: BodyMixin._body is cached under environ[...] *)')
    out.append('Definition body_cache_key : list N := %s.' % coq_str(keys[0][len('environ['):-1].strip()))
    # def body(self): ret = self._body; ret.seek(0); return ret
    bp = find_func(cls, 'body')
    st = [n for n in bp.body if not (isinstance(n, ast.Expr) and isinstance(n.value, ast.Constant))]
    ok = (len(st) == 3 and isinstance(st[0], ast.Assign) and isinstance(st[0].value, ast.Attribute)
          and st[0].value.attr == '_body' and isinstance(st[1], ast.Expr) and isinstance(st[1].value, ast.Call)
          and isinstance(st[1].value.func, ast.Attribute) and st[1].value.func.attr == 'seek'
          and [lit(a) for a in st[1].value.args] == [0] and isinstance(st[2], ast.Return))
    out.append('(* body_mixin.py: BodyMixin.body is "the cached _body, seek(0), return it" *)')
    out.append('Definition body_property_rewinds_cached : bool := %s.' % ('true' if ok else 'false'))


def re_findall_pct(t):
    import re
    return re.findall(r'%s', t.replace('%%', ''))


def _framework_errors():
    """the texts of the errors the framework itself creates (status code, body)"""
    tree, _ = parse('ombott/ombott.py')
    cls = find_class(tree, 'Ombott')
    ns = vars(rt('ombott.ombott'))
    rows = []
    prefix = None
    for fname in ('_handle', '_cast', 'handler'):
        fn = find_func(cls, fname)
        for n in ast.walk(fn):
            if isinstance(n, ast.Call) and ast.unparse(n.func) == 'HTTPError' and len(n.args) >= 2:
                code, body = n.args[0], n.args[1]
                try:
                    cv = val(code, ns)
                except Shape:
                    continue            # a computed status (e.g. the router's answer): not a framework text
                if isinstance(cv, int) and not isinstance(cv, bool):
                    if isinstance(body, ast.JoinedStr):
                        lit0 = body.values[0]
                        if not (isinstance(lit0, ast.Constant) and len(body.values) == 2
                                and ast.unparse(body.values[1].value) == 'type(first)'):
                            raise Shape('%s: unexpected f-string error body %s' % (fname, ast.unparse(body)))
                        prefix = (cv, lit0.value)
                    else:
                        try:
                            bv = val(body, ns)
                        except Shape:
                            raise Shape('%s: HTTPError body is neither a constant nor the known f-string: %s'
                                        % (fname, ast.unparse(body)))
                        if not isinstance(bv, str):
                            raise Shape('%s: HTTPError body is not text' % fname)
                        rows.append((fname, cv, bv))
    if prefix is None:
        raise Shape('_cast: unsupported-type error not found')
    rtree, _ = parse('ombott/router/radirouter.py')
    rns = vars(rt('ombott.router.radirouter'))
    res = find_func(find_class(rtree, 'RadiRouter'), 'resolve')
    for n in ast.walk(res):
        if isinstance(n, ast.List) and len(n.elts) == 3:
            try:
                c0, t0 = val(n.elts[0], rns), val(n.elts[1], rns)
            except Shape:
                continue
            if isinstance(c0, int) and isinstance(t0, str):
                rows.append(('resolve', c0, t0))
    if not any(r[1] == 404 for r in rows) or not any(r[1] == 405 for r in rows):
        raise Shape('resolve: 404/405 triples not found')
    return rows, prefix


@group('errtexts.framework_errors')
def gen_framework_errors(out):
    rows, prefix = _framework_errors()
    out.append('(* errors the framework creates itself: (where, status code, body text) *)')
    out.append('Definition framework_errors : list (list N * (Z * list N)) := %s.' %
               coq_list('(%s, (%d%%Z, %s))' % (coq_str(a), b, coq_str(c)) for a, b, c in rows))
    out.append('Definition unsupported_type_error : Z * list N := (%d%%Z, %s).' % (prefix[0], coq_str(prefix[1])))


def _critical_probe():
    """ask the code: serve a request whose error handler itself fails (the last-resort page), with debug off
    and on, and read the page back as templates around the values that went in"""
    import io
    import html
    mod = rt('ombott.ombott')

    def serve(debug, path='/Xq7Path'):
        app = mod.Ombott(dict(debug=debug, catchall=True))

        @app.error(404)
        def boom(err):
            raise ValueError('Xq7Exc')
        env = {'REQUEST_METHOD': 'GET', 'PATH_INFO': path, 'QUERY_STRING': '', 'SERVER_NAME': 'l',
               'SERVER_PORT': '80', 'SERVER_PROTOCOL': 'HTTP/1.1', 'wsgi.url_scheme': 'http',
               'wsgi.input': io.BytesIO(b''), 'wsgi.errors': io.StringIO(), 'SCRIPT_NAME': ''}
        got = {}

        def sr(st, hd, ei=None):
            got['st'], got['hd'] = st, list(hd)
        body = b''.join(app(env, sr)).decode('utf8')
        return got, body
    g0, plain = serve(False)
    g1, dbg = serve(True)
    if plain.count('/Xq7Path') != 1 or not dbg.startswith(plain):
        raise Shape('wsgi: probing the last-resort page: unexpected page %r' % plain[:80])
    crit = plain.replace('%', '%%').replace('/Xq7Path', '%s')
    rest = dbg[len(plain):]
    rep = html.escape(repr(ValueError('Xq7Exc')), quote=True).replace('&#x27;', '&#039;')
    i = rest.find(rep)
    t0 = rest.find('Traceback (most recent call last)', i + len(rep))
    t1 = rest.rfind('ValueError: Xq7Exc\n')
    if i < 0 or t0 < 0 or t1 < t0:
        raise Shape('wsgi: probing the last-resort page: debug part not recognised')
    t1 += len('ValueError: Xq7Exc\n')
    dfmt = (rest[:i].replace('%', '%%') + '%s' + rest[i + len(rep):t0].replace('%', '%%') + '%s'
            + rest[t1:].replace('%', '%%'))
    if g0.get('st') != g1.get('st') or g0.get('hd') != g1.get('hd') or not g0.get('st', '').startswith('500 '):
        raise Shape('wsgi: probing the last-resort page: status/headers')
    # the path must arrive escaped exactly as common_helpers.html_escape does it
    evil = '/<b>&"\'x'
    _, page = serve(False, evil)
    want = crit.replace('%%', '\0').replace('%s', rt('ombott.common_helpers').html_escape(evil)).replace('\0', '%')
    if page != want:
        raise Shape('wsgi: probing the last-resort page: the path is not html_escape()d into the page')
    return crit, dfmt, g0['st'], g0['hd']


def _wsgi_closure(tree, cls):
    """Ombott.wsgi together with the methods / module-level functions it calls (two levels), as AST nodes"""
    funcs = {n.name: n for n in tree.body if isinstance(n, ast.FunctionDef)}
    meths = {n.name: n for n in cls.body if isinstance(n, ast.FunctionDef)}
    seen, todo = [], [find_func(cls, 'wsgi')]
    for _ in range(3):
        nxt = []
        for f in todo:
            if f in seen:
                continue
            seen.append(f)
            for n in ast.walk(f):
                if isinstance(n, ast.Call):
                    nm = n.func.id if isinstance(n.func, ast.Name) else n.func.attr if isinstance(n.func, ast.Attribute) else None
                    for tab in (funcs, meths):
                        if nm in tab and tab[nm] not in seen and nm not in ('_handle', '_cast', 'handler', 'default_error_handler'):
                            nxt.append(tab[nm])
        todo = nxt
    return seen


@group('errtexts.critical_page')
def gen_critical_page(out):
    try:
        _gen_critical_page_ast(out)
    except Shape as e:
        del out[:]
        crit, dfmt, st, hd = _critical_probe()
        out.append('(* last-resort page: obtained by probing (source shape not recognised: %s) *)'
                   % str(e).replace('*)', '* )').replace('(*', '( *')[:120])
        out.append('Definition critical_page_fmt : list N := %s.' % coq_str(crit))
        out.append('Definition critical_debug_fmt : list N := %s.' % coq_str(dfmt))
        out.append('Definition critical_status_line : list N := %s.' % coq_str(st))
        out.append('Definition critical_headers : list (list N * list N) := %s.' %
                   coq_list('(%s, %s)' % (coq_str(a), coq_str(b)) for a, b in hd))


def _gen_critical_page_ast(out):
    # last-resort page: its texts may sit in the function, in helpers it calls, or in module-level constants
    tree, _ = parse('ombott/ombott.py')
    cls = find_class(tree, 'Ombott')
    mod = rt('ombott.ombott')
    closure = _wsgi_closure(tree, cls)
    w = ast.Module(body=closure, type_ignores=[])
    src = '\n'.join(ast.unparse(f) for f in closure)
    inside_f = {id(c) for n in ast.walk(w) if isinstance(n, ast.JoinedStr) for c in ast.walk(n) if c is not n}
    strs = [n.value for n in ast.walk(w) if isinstance(n, ast.Constant) and isinstance(n.value, str)
            and id(n) not in inside_f]
    # an f-string is read as the %-template it spells: literal pieces with %s for every plain {name} field
    for n in ast.walk(w):
        if isinstance(n, ast.JoinedStr):
            t = ''
            for v in n.values:
                if isinstance(v, ast.Constant) and isinstance(v.value, str):
                    t += v.value.replace('%', '%%')
                elif isinstance(v, ast.FormattedValue) and v.conversion == -1 and v.format_spec is None:
                    t += '%s'
                else:
                    t = None
                    break
            if t:
                strs.append(t)
    named = {}
    for n in ast.walk(w):
        if isinstance(n, ast.Name) and isinstance(getattr(mod, n.id, None), (str, tuple, list)):
            named[n.id] = getattr(mod, n.id)
    strs += [v for v in named.values() if isinstance(v, str)]
    crit = sorted({x for x in strs if 'Critical error' in x})
    dbg = sorted({x for x in strs if '<h2>Error:</h2>' in x})
    st = sorted({x for x in strs if x.startswith('500 ')})
    if len(crit) != 1 or len(dbg) != 1 or len(st) != 1:
        raise Shape('wsgi: last-resort page texts not found')
    if "html_escape(environ.get('PATH_INFO', '/'))" not in src:
        raise Shape('wsgi: last-resort page does not escape PATH_INFO the expected way')
    if len(re_findall_pct(crit[0])) != 1 or len(re_findall_pct(dbg[0])) != 2:
        raise Shape('wsgi: last-resort page templates do not have the expected number of fields')
    out.append('Definition critical_page_fmt : list N := %s.' % coq_str(crit[0]))
    out.append('Definition critical_debug_fmt : list N := %s.' % coq_str(dbg[0]))
    out.append('Definition critical_status_line : list N := %s.' % coq_str(st[0]))
    hdrs = [n for n in ast.walk(w) if isinstance(n, ast.Assign) and ast.unparse(n.targets[0]) == 'headers']
    if len(hdrs) != 1:
        raise Shape('wsgi: last-resort headers')
    hv = val(hdrs[0].value, vars(mod))
    if not (isinstance(hv, list) and all(isinstance(x, tuple) and len(x) == 2 and all(isinstance(y, str) for y in x)
                                         for x in hv)):
        raise Shape('wsgi: last-resort headers are not a list of string pairs')
    out.append('Definition critical_headers : list (list N * list N) := %s.' %
               coq_list('(%s, %s)' % (coq_str(a), coq_str(b)) for a, b in hv))


@group('errtexts.json_error')
def gen_json_error(out):
    tree, _ = parse('ombott/ombott.py')
    cls = find_class(tree, 'Ombott')
    # the JSON branch of default_error_handler
    d = find_func(cls, 'default_error_handler')
    dsrc = ast.unparse(d)
    out.append('Definition json_error_content_type : list N := %s.' %
               coq_str('application/json' if "['Content-Type'] = 'application/json'" in dsrc else ''))
    keys = []
    for n in ast.walk(d):
        if isinstance(n, ast.Call) and ast.unparse(n.func) == 'dict':
            keys = [k.arg for k in n.keywords]
        elif isinstance(n, ast.Dict) and n.keys and all(isinstance(k, ast.Constant) and isinstance(k.value, str)
                                                      for k in n.keys) and not keys:
            keys = [k.value for k in n.keys]
    if not keys:
        raise Shape('default_error_handler: json dict not found')
    out.append('Definition json_error_keys : list (list N) := %s.' % coq_list(coq_str(k) for k in keys))


@group('errtexts.status_lines')
def gen_status_lines(out):
    rows, prefix = _framework_errors()
    # status lines the framework relies on (http.client.responses is CPython data: pinned here from the running interpreter)
    import http.client
    codes = sorted({r[1] for r in rows} | {prefix[0], 413, 400})
    out.append('Definition status_lines : list (Z * list N) := %s.' %
               coq_list('(%d%%Z, %s)' % (c, coq_str('%d %s' % (c, http.client.responses[c]))) for c in codes))


def gen_errtexts(out):
    gen_framework_errors(out)
    gen_critical_page(out)
    gen_json_error(out)
    gen_status_lines(out)


def _passthrough_pool():
    """every builtin exception class that can be raised as cls('x') (Warning categories left out)"""
    import builtins
    pool = []
    for name in sorted(vars(builtins)):
        c = getattr(builtins, name)
        if not (isinstance(c, type) and issubclass(c, BaseException)) or c is BaseException or issubclass(c, Warning):
            continue
        if c.__name__ != name:                  # aliases (IOError, EnvironmentError = OSError)
            continue
        try:
            c('x')
        except Exception:
            continue                            # needs other arguments (UnicodeDecodeError, ExceptionGroup, ...)
        pool.append(c)
    return pool


def _passthrough_probe(fname):
    """ask the code: which exception classes raised inside Ombott._handle (by the handler), Ombott._cast (by the first
    next() of the handler's iterable) or reaching Ombott.wsgi (out of _handle, catchall on) are passed on to the
    caller?  Returned as the canonical class-name list an `except (...): raise` clause would carry:
    KeyboardInterrupt and SystemExit if they propagate, then the minimal propagating Exception subclasses by name.
    Subclass matching is verified (every builtin subclass and a fresh user subclass of a listed class propagates, a
    fresh subclass of Exception does not)."""
    import io
    mod = rt('ombott.ombott')

    def environ():
        return {'REQUEST_METHOD': 'GET', 'PATH_INFO': '/p', 'QUERY_STRING': '', 'SERVER_NAME': 'l', 'SERVER_PORT': '80',
                'SERVER_PROTOCOL': 'HTTP/1.1', 'wsgi.url_scheme': 'http', 'wsgi.input': io.BytesIO(b''),
                'wsgi.errors': io.StringIO(), 'SCRIPT_NAME': ''}

    class Raiser:
        def __init__(self, cls):
            self.cls = cls

        def __iter__(self):
            return self

        def __next__(self):
            raise self.cls('Xq7Probe')

    def propagates(cls):
        app = mod.Ombott(dict(catchall=True))
        state = {'raise': False}

        @app.route('/p')
        def h():
            if state['raise']:
                raise cls('Xq7Probe')
            return 'x'
        try:
            if fname == '_handle':
                state['raise'] = True
                app._handle(environ())
            elif fname == '_cast':
                app._handle(environ())          # binds the per-thread request / response objects
                app._cast(Raiser(cls))
            else:
                def boom(env):
                    raise cls('Xq7Probe')
                app._handle = boom
                app.wsgi(environ(), lambda st, hd, ei=None: None)
        except BaseException as e:              # noqa: the probe raises KeyboardInterrupt / SystemExit on purpose
            if type(e) is cls and e.args == ('Xq7Probe',):
                return True
            raise Shape('%s: probing with %s raised %s: %s' % (fname, cls.__name__, type(e).__name__, str(e)[:80]))
        return False

    pool = [c for c in _passthrough_pool() if not (fname == '_cast' and issubclass(c, StopIteration))]
    if len(pool) < 40:
        raise Shape('pass-through probing: builtin exception pool too small (%d)' % len(pool))
    prop = [c for c in pool if propagates(c)]
    for c in pool:
        if not issubclass(c, Exception) and c not in prop:
            raise Shape('%s: probing: %s (not an Exception) does not propagate' % (fname, c.__name__))
    exc = [c for c in prop if issubclass(c, Exception)]
    minimal = sorted((c for c in exc if not any(d is not c and issubclass(c, d) for d in exc)), key=lambda c: c.__name__)
    for m in minimal:
        sub = type('Xq7Sub' + m.__name__, (m,), {})
        if not propagates(sub) or any(issubclass(c, m) and c not in prop for c in pool):
            raise Shape('%s: probing: %s propagates but not all of its subclasses' % (fname, m.__name__))
    if Exception in minimal or propagates(type('Xq7Other', (Exception,), {})):
        raise Shape('%s: probing: every Exception propagates' % fname)
    return [c.__name__ for c in (KeyboardInterrupt, SystemExit) if c in prop] + [c.__name__ for c in minimal]


@group('ombott.passthrough')
def gen_passthrough(out):
    """ombott.py: the `except <classes>: raise` clauses of Ombott._handle, Ombott._cast and Ombott.wsgi — the
    exception classes that are passed on to the server instead of becoming an error page (cluster wsgiD1, C03).
    The classes may be written as a tuple of names, one name, or the name of a module-level tuple constant.
    When a function has no single clause of that shape, the running code is asked (_passthrough_probe)."""
    tree, _ = parse('ombott/ombott.py')
    cls = find_class(tree, 'Ombott')

    def names_of(node):
        if isinstance(node, ast.Tuple):
            out_ = []
            for e in node.elts:
                out_ += names_of(e)
            return out_
        if isinstance(node, ast.Attribute):
            return [node.attr]
        if isinstance(node, ast.Name):
            try:
                return names_of(module_assign(tree, node.id))      # a module-level constant naming the tuple
            except Shape:
                return [node.id]
        raise Shape('pass-through clause: unsupported exception expression %s' % ast.dump(node)[:80])

    def from_ast(fname):
        fn = find_func(cls, fname)
        found = []
        for n in ast.walk(fn):
            if isinstance(n, ast.ExceptHandler) and n.type is not None and len(n.body) == 1 \
                    and isinstance(n.body[0], ast.Raise) and n.body[0].exc is None:
                found.append(names_of(n.type))
        if len(found) != 1:
            raise Shape('%s: expected exactly one `except ...: raise` clause, found %d' % (fname, len(found)))
        return found[0]

    out.append('(* ombott.py: exception classes re-raised by the bare `except ...: raise` clauses (by class name; an '
               'except clause also matches subclasses) *)')
    for fname in ('_handle', '_cast', 'wsgi'):
        try:
            names = from_ast(fname)
        except Shape as e:
            names = _passthrough_probe(fname)
            out.append('(* Ombott.%s: obtained by probing every builtin exception class (source shape not recognised: '
                       '%s) *)' % (fname, str(e).replace('*)', '* )').replace('(*', '( *')[:120]))
        out.append('Definition passthrough_%s : list (list N) := %s.'
                   % (fname.strip('_'), coq_list(coq_str(x) for x in names)))


def generate():
    out = ['(* GENERATED by tools/gen_constants.py from the current working tree of the repository - do not edit *)',
           'From Coq Require Import List ZArith NArith.', 'Import ListNotations.', '']
    for g in (gen_response, gen_response_blacklist, gen_ombott, gen_helpers, gen_errpage, gen_router, gen_body,
              gen_request, gen_errtexts, gen_passthrough):
        n0 = len(out)
        g(out)
        if len(out) > n0:
            out.append('')
    return '\n'.join(out)


def write_if_changed(path, text):
    old = None
    if os.path.exists(path):
        with open(path) as f:
            old = f.read()
    if old != text:
        os.makedirs(os.path.dirname(path), exist_ok=True)
        with open(path, 'w') as f:
            f.write(text)
        print('gen_constants: wrote', path)


def main():
    """exit 0 also when single groups could not be extracted: their definitions are then absent from Gen.v, so
    exactly the proofs that depend on them stop compiling (reported per property by the check); the failed groups
    are listed on stderr and in gen/GEN_STATUS.json.  Exit 2 only when nothing at all could be generated."""
    try:
        text = generate()
    except (Shape, SyntaxError, KeyError, IndexError, AttributeError, TypeError, ValueError, OSError) as e:
        sys.stderr.write('gen_constants: FAIL-CLOSED: %s: %s\n' % (type(e).__name__, e))
        return 2
    out = os.path.normpath(OUT)
    write_if_changed(out, text)
    # statements of small loops translated into Gallina (tools/gen_loops.py) -> GenLoops.v beside Gen.v
    import gen_loops
    lout = os.path.join(os.path.dirname(out), 'GenLoops.v')
    try:
        ltext = gen_loops.generate(parse)
    except (gen_loops.Shape, Shape, SyntaxError, KeyError, IndexError, AttributeError, TypeError, ValueError, OSError) as e:
        FAILED.append(('loops.iter_body', '%s: %s' % (type(e).__name__, e)))
        # keep the development compiling: translate the REFERENCE shape instead; the check reports the theorems
        # marked `@requires-gen loops.iter_body` as not applicable to this tree
        ref = os.path.join(os.path.dirname(os.path.abspath(__file__)), 'gen_loops_reference.py')
        with open(ref) as f:
            rsrc = f.read()
        ltext = gen_loops.generate(lambda rel: (ast.parse(rsrc), rsrc))
        ltext = ('(* NOT the current source: the loop could not be translated (%s); this is the translation of the '
                 'reference shape tools/gen_loops_reference.py *)\n' % str(e).replace('*)', '* )').replace('(*', '( *')[:300]
                 + ltext)
    write_if_changed(lout, ltext)
    import json
    with open(os.path.join(os.path.dirname(out), 'GEN_STATUS.json'), 'w') as f:
        json.dump(dict(failed=[dict(group=g, error=m) for g, m in FAILED]), f, indent=1)
    for g, m in FAILED:
        sys.stderr.write('gen_constants: FAIL-CLOSED (group %s dropped): %s\n' % (g, m))
    return 0


if __name__ == '__main__':
    sys.exit(main())
