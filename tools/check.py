#!/venv/bin/python
"""check.py — one entry point for every property check.

    ./check Cxx [--tier quick|thorough] [--replay FILE]

Protocol (DESIGN.md 2.4):
  1 regenerate coq/gen/Gen.v from /repo (fail-closed translator)
  2 build the .vo cone of coq/props/Cxx.v, re-run coqc on it to collect
    Print Assumptions, audit the sources for forbidden declarations
  3 (re)build the extracted OCaml driver of the model
  4 corpus + generated cases: implementation vs extracted model (+ vm_compute
    inside Coq on the first cases)                         -> disagreements
  5 independent property oracle on the implementation       -> failing inputs
  6 subtract KNOWN_FINDINGS.jsonl entries (by predicate on the case)
  7 write evidence/Cxx.json, print result lines, exit 0/1
"""
import argparse
import fcntl
import hashlib
import importlib
import json
import os
import random
import re
import signal
import subprocess
import sys
import time

ROOT = os.path.normpath(os.path.join(os.path.dirname(os.path.abspath(__file__)), '..'))
COQ = os.path.join(ROOT, 'coq')
if not os.environ.get('VERIF_REPO'):
    os.environ.pop('VERIF_REPO', None)      # an empty value means unset, also for the harness modules and children
REPO = os.environ.get('VERIF_REPO') or '/repo'

if os.environ.get('PYTHONHASHSEED') != '0':
    os.environ['PYTHONHASHSEED'] = '0'
    os.environ['PYTHONPATH'] = REPO
    os.execv(sys.executable, [sys.executable] + sys.argv)

sys.path.insert(0, REPO)
sys.path.insert(0, os.path.join(ROOT, 'tools'))
sys.dont_write_bytecode = True

# A run against another checkout (VERIF_REPO=/some/worktree: seeded breaking changes, fixes under development)
# builds in a private copy of coq/ and ocaml/, so that its Gen.v does not churn the main build tree.
MAIN_COQ = COQ
ALT = None
if os.path.realpath(REPO) != os.path.realpath('/repo'):
    ALT = '/tmp/verif_alt_' + hashlib.md5(os.path.realpath(REPO).encode()).hexdigest()[:10]
    COQ = os.path.join(ALT, 'coq')
    os.environ['VERIF_GEN_OUT'] = os.path.join(COQ, 'gen', 'Gen.v')
    os.environ['VERIF_OCAML_BUILD'] = os.path.join(ALT, 'ocaml', 'build')

import build_drivers  # noqa: E402


def sync_alt():
    """copy the main build tree into the private one (under the main lock, so no half-written .vo is copied)"""
    os.makedirs(os.path.join(MAIN_COQ, 'cases'), exist_ok=True)
    os.makedirs(ALT, exist_ok=True)
    with open(os.path.join(MAIN_COQ, '.lock'), 'w') as f:
        fcntl.flock(f, fcntl.LOCK_EX)
        try:
            for d in ('coq', 'ocaml'):
                subprocess.run(['rsync', '-a', '--delete', '--exclude', 'cases/', '--exclude', '.lock',
                                '--exclude', 'gen/Gen.v', '--exclude', 'gen/Gen.vo', '--exclude', 'gen/Gen.glob',
                                '--exclude', 'gen/GenLoops.v', '--exclude', 'gen/GenLoops.vo', '--exclude', 'gen/GenLoops.glob',
                                os.path.join(ROOT, d) + '/', os.path.join(ALT, d) + '/'], check=True)
        finally:
            fcntl.flock(f, fcntl.LOCK_UN)
    os.makedirs(os.path.join(COQ, 'cases'), exist_ok=True)
    os.makedirs(os.path.join(ALT, 'ocaml', 'build'), exist_ok=True)

COQ_WARN = '-notation-overridden,-deprecated-hint-without-locality,-deprecated-instance-without-locality'
FORBIDDEN = re.compile(
    r'\b(Admitted|admit|Axiom|Axioms|Parameter|Parameters|Conjecture|Conjectures)\b'
    r'|Unset\s+Guard|Unset\s+Positivity|Unset\s+Universe|bypass_check|type-in-type|impredicative-set'
    r'|Admit\s+Obligations|native_compute')


def log(*a):
    print(*a, file=sys.stderr, flush=True)


# --------------------------------------------------------------------------
# Coq side
# --------------------------------------------------------------------------

def strip_comments(text):
    out = []
    depth = 0
    i = 0
    while i < len(text):
        if text.startswith('(*', i):
            depth += 1
            i += 2
        elif text.startswith('*)', i) and depth:
            depth -= 1
            i += 2
        else:
            if not depth:
                out.append(text[i])
            elif text[i] == '\n':
                out.append('\n')
            i += 1
    return ''.join(out)


def audit_sources():
    """grep every .v file (comments stripped) for forbidden declarations; Variable /
    Hypothesis / Context only inside a Section."""
    problems = []
    for d, _, files in os.walk(COQ):
        if os.path.basename(d) == 'cases':
            continue
        for fn in files:
            if not fn.endswith('.v'):
                continue
            p = os.path.join(d, fn)
            with open(p) as f:
                text = strip_comments(f.read())
            for m in FORBIDDEN.finditer(text):
                ln = text.count('\n', 0, m.start()) + 1
                problems.append('%s:%d: %s' % (os.path.relpath(p, ROOT), ln, m.group(0)))
            depth = 0
            for ln, line in enumerate(text.split('\n'), 1):
                s = line.strip()
                if re.match(r'Section\s+\w+\s*\.', s):
                    depth += 1
                elif re.match(r'End\s+\w+\s*\.', s) and depth:
                    depth -= 1
                elif depth == 0 and re.match(r'(Variable|Variables|Hypothesis|Hypotheses|Context)\b', s):
                    problems.append('%s:%d: %s outside a Section' % (os.path.relpath(p, ROOT), ln, s.split()[0]))
    return problems


def ensure_makefile():
    files = []
    for sub in ('lib', 'gen', 'model', 'proofs', 'props', 'extract'):
        for d, _, fs in os.walk(os.path.join(COQ, sub)):
            for fn in fs:
                if fn.endswith('.v'):
                    files.append(os.path.relpath(os.path.join(d, fn), COQ))
    text = '-Q . Verif\n-arg -w -arg %s\n' % COQ_WARN + '\n'.join(sorted(files)) + '\n'
    cp = os.path.join(COQ, '_CoqProject')
    old = open(cp).read() if os.path.exists(cp) else None
    if old != text or not os.path.exists(os.path.join(COQ, 'Makefile')):
        with open(cp, 'w') as f:
            f.write(text)
        subprocess.run(['coq_makefile', '-f', '_CoqProject', '-o', 'Makefile'], cwd=COQ,
                       check=True, capture_output=True)


def run(cmd, cwd=None, timeout=900, stack=False):
    if stack:
        cmd = ['bash', '-c', 'ulimit -s 4000000 2>/dev/null || ulimit -s 1000000 2>/dev/null; exec "$@"', '_'] + cmd
    try:
        r = subprocess.run(cmd, cwd=cwd, capture_output=True, text=True, timeout=timeout)
        return r.returncode, r.stdout, r.stderr
    except subprocess.TimeoutExpired as e:
        return 124, (e.stdout or b'').decode() if isinstance(e.stdout, bytes) else (e.stdout or ''), 'TIMEOUT after %ss' % timeout


def coq_build(pid, mod):
    """returns dict(gen_ok, model_ok, obligations, discharged, theorems, assumptions, errors, checker_cmd)"""
    res = dict(gen_ok=True, model_ok=True, obligations=0, discharged=0, theorems=[], assumptions={},
               errors=[], checker_cmd='')
    os.makedirs(os.path.join(COQ, 'cases'), exist_ok=True)
    os.makedirs(os.environ.get('VERIF_OCAML_BUILD', os.path.join(ROOT, 'ocaml', 'build')), exist_ok=True)
    if True:
        rc, out, err = run([sys.executable, os.path.join(ROOT, 'tools', 'gen_constants.py')], timeout=120)
        if rc != 0:
            res['gen_ok'] = False
            res['errors'].append('translator tools/gen_constants.py failed closed: ' + err.strip()[-500:])
        ensure_makefile()
        props_v = 'props/%s.v' % pid
        with open(os.path.join(COQ, props_v)) as f:
            ptxt = strip_comments(f.read())
        theorems = re.findall(r'^\s*Theorem\s+(\w+)', ptxt, re.M)
        # theorems about code translated from the source (`(* @requires-gen <group> *)` before the Theorem) are not
        # applicable to a tree whose source the translator could not read: they are then about the reference shape
        failed_groups = set()
        try:
            with open(os.path.join(COQ, 'gen', 'GEN_STATUS.json')) as f:
                failed_groups = {x['group'] for x in json.load(f).get('failed', [])}
        except (OSError, ValueError):
            pass
        with open(os.path.join(COQ, props_v)) as f:
            raw = f.read()
        res['skipped'] = [(t, g) for g, t in re.findall(r'\(\*\s*@requires-gen\s+([\w.]+)\s*\*\)\s*Theorem\s+(\w+)', raw)
                          if g in failed_groups]
        res['gen_failed_groups'] = sorted(failed_groups)
        printed = re.findall(r'^\s*Print\s+Assumptions\s+(\w+)', ptxt, re.M)
        res['theorems'] = theorems
        res['obligations'] = len(theorems) - len(res['skipped'])
        missing = [t for t in theorems if t not in printed]
        if missing:
            res['errors'].append('theorems without Print Assumptions: %s' % missing)
        # 1. the model + extraction (needed for the correspondence even if proofs break)
        model_targets = ['extract/X%s.vo' % pid]
        mk = ['timeout', '1500', 'make', '-j16'] + model_targets
        rc, out, err = run(mk, cwd=COQ, timeout=1600)
        if rc != 0:
            res['model_ok'] = False
            res['errors'].append('model/extraction does not compile: ' + (err.strip() or out.strip())[-1500:])
        # 2. the proof cone (dependencies of props/Cxx.v), then props/Cxx.v itself with output captured
        deps = re.findall(r'From Verif Require (?:Import|Export) ([\w.\s]+?)\.\s*\n', ptxt)
        dep_targets = []
        for d in deps:
            for m in d.split():
                dep_targets.append(m.replace('.', '/') + '.vo')
        mk = ['timeout', '3000', 'make', '-j16'] + dep_targets
        rc, out, err = run(mk, cwd=COQ, timeout=3100)
        cmd = ['coqc', '-Q', '.', 'Verif', '-w', COQ_WARN, props_v, '-o', 'cases/%s.vo' % pid]
        res['checker_cmd'] = 'cd coq && make -j16 %s && %s' % (' '.join(dep_targets), ' '.join(cmd))
        if rc != 0:
            res['errors'].append('proof dependencies do not compile: ' + (err.strip() or out.strip())[-1500:])
            return res
        rc, out, err = run(['timeout', '1500'] + cmd, cwd=COQ, timeout=1600)
        # parse Print Assumptions blocks in order
        blocks = []
        cur = None
        for line in out.split('\n'):
            if line.startswith('Closed under the global context'):
                blocks.append([])
                cur = None
            elif line.startswith('Axioms:'):
                cur = []
                blocks.append(cur)
            elif cur is not None:
                if line.strip():
                    cur.append(line.rstrip())
        for name, b in zip(printed, blocks):
            axs = [x.strip() for x in b if x and not x.startswith(' ' * 3)]
            res['assumptions'][name] = axs
        done = set(printed[:len(blocks)]) if len(blocks) <= len(printed) else set(printed)
        res['discharged'] = len([t for t in theorems if t in done and t not in {x for x, _ in res['skipped']}])
        if rc != 0:
            res['errors'].append('props/%s.v does not check: %s' % (pid, (err.strip() or out.strip())[-1500:]))
            if len(blocks) < len(printed):
                res['errors'].append('first theorem that no longer checks: %s' % printed[len(blocks)])
        return res


class CoqLock:
    """serialises every step that reads or writes coq/ and ocaml/build (several checks may run at once,
    possibly against different checkouts: Gen.v differs between them)"""

    def __enter__(self):
        os.makedirs(os.path.join(COQ, 'cases'), exist_ok=True)
        self.f = open(os.path.join(COQ, '.lock'), 'w')
        fcntl.flock(self.f, fcntl.LOCK_EX)
        return self

    def __exit__(self, *a):
        fcntl.flock(self.f, fcntl.LOCK_UN)
        self.f.close()


def vm_cross_check(pid, mod, pairs):
    """evaluate the model inside Coq (vm_compute) on (input, expected-output) pairs"""
    if not pairs:
        return True, 0, ''
    name = 'V%s' % pid

    def zl(xs):
        return '[' + ';'.join(str(x) for x in xs) + ']'
    lines = ['From Verif Require Import lib.Base %s.' % mod.COQ_MODEL,
             'Local Open Scope Z_scope.',
             'Definition zl_eqb (a b : list Z) : bool := if list_eq_dec Z.eq_dec a b then true else false.',
             'Definition cases : list (list Z * list Z) := [']
    lines.append(';\n'.join('(%s, %s)' % (zl(i), zl(o)) for i, o in pairs))
    lines.append('].')
    lines.append('Definition bad : list nat := map fst (filter (fun p => negb (zl_eqb (%s (fst (snd p))) (snd (snd p)))) (combine (seq 0 (length cases)) cases)).' % mod.COQ_CORR)
    lines.append('Eval vm_compute in bad.')
    path = os.path.join(COQ, 'cases', name + '.v')
    with open(path, 'w') as f:
        f.write('\n'.join(lines) + '\n')
    rc, out, err = run(['timeout', '600', 'coqc', '-Q', '.', 'Verif', '-w', COQ_WARN, 'cases/%s.v' % name],
                       cwd=COQ, timeout=700, stack=True)
    ok = rc == 0 and re.search(r'=\s*\[\s*\]\s*:\s*list nat', out.replace('\n', ' ')) is not None
    return ok, len(pairs), (out + err)[-800:]


# --------------------------------------------------------------------------
# implementation / model runners
# --------------------------------------------------------------------------

class CaseTimeout(BaseException):
    """raised by the per-case alarm.  A BaseException: the framework's catch-alls (`except Exception` in wsgi(),
    _handle(), MultipartMarkup.parse) must not be able to swallow it and carry on looping"""


def _alarm(signum, frame):
    raise CaseTimeout()


HANGS = [0]          # cases on which the implementation did not return in time, this run
HANG_STOP = 5        # after that many, the remaining cases are not run (a hanging tree must not cost hours)
RETRIED = [0]        # cases re-run after hitting the wall-clock limit (at most 2 per run)
RETRY_LIMIT = 120
POISONED = [False]   # a worker thread was abandoned while still running: it may hold locks; no further case is run


CALLS = [0]
THREAD_EVERY = 4     # every 4th case is served on a fresh worker thread instead of the importing (main) thread


def _in_worker(mod, case):
    """run the case on a fresh thread: WSGI servers serve requests on threads other than the one that imported the
    framework, and state created at import time (shared error responses, thread-local stores) must work there"""
    import threading
    box = {}

    def work():
        try:
            box['r'] = mod.run_impl(case)
        except BaseException as e:      # noqa: B902 - reported to the main thread
            box['e'] = e
    t = threading.Thread(target=work, daemon=True)
    t.start()
    try:
        t.join()
    except CaseTimeout:
        # the thread cannot be stopped and may hold locks of the harness or of the framework for ever
        POISONED[0] = True
        raise
    if 'e' in box:
        raise box['e']
    return box.get('r')


SHM = [None]         # shared with the supervising parent process: start time and JSON of the case in flight
SHM_SIZE = 4 << 20
SUPERVISOR_LIMIT = 150   # seconds one case may be in flight before the supervisor gives the run up


def _beat(case):
    """tell the supervisor which case is in flight (case=None: none)"""
    mm = SHM[0]
    if mm is None:
        return
    import struct
    if case is None:
        mm[0:8] = struct.pack('d', 0.0)
        return
    try:
        js = json.dumps(case, default=repr).encode()
    except Exception:
        js = b'null'
    js = js[:SHM_SIZE - 16]
    mm[8:12] = struct.pack('I', len(js))
    mm[12:12 + len(js)] = js
    mm[0:8] = struct.pack('d', time.time())


def supervise(rid, tier):
    """Fork: the child goes on as the check; the parent only watches it and passes its exit status on.  A loop inside C
    code on a worker thread (a regular expression that backtracks for ever holds the interpreter lock: no signal
    handler, no other thread of that process runs again) or a main thread blocked on a lock an abandoned thread holds
    cannot be ended from inside.  When one case is in flight for more than SUPERVISOR_LIMIT seconds the parent writes that
    case as the replay, reports the violation, kills the child's process group and exits 1.  On a tree that answers it
    never acts."""
    import mmap
    import struct
    mm = mmap.mmap(-1, SHM_SIZE)
    mm[0:8] = struct.pack('d', 0.0)
    sys.stdout.flush()
    sys.stderr.flush()
    child = os.fork()
    if child == 0:
        try:
            os.setpgid(0, 0)
            import ctypes
            ctypes.CDLL(None).prctl(1, signal.SIGKILL)      # PR_SET_PDEATHSIG: do not outlive the supervisor
        except Exception:
            pass
        SHM[0] = mm
        return
    # ---- parent
    def _pass_on(signum, frame):
        try:
            os.killpg(child, signal.SIGKILL)
        except Exception:
            pass
        os._exit(128 + signum)
    for sg in (signal.SIGTERM, signal.SIGINT, signal.SIGHUP):
        signal.signal(sg, _pass_on)
    while True:
        try:
            w, st = os.waitpid(child, os.WNOHANG)
        except ChildProcessError:
            os._exit(2)
        if w == child:
            os._exit(os.WEXITSTATUS(st) if os.WIFEXITED(st) else 2)
        t = struct.unpack('d', mm[0:8])[0]
        if t and time.time() - t > SUPERVISOR_LIMIT:
            n = struct.unpack('I', mm[8:12])[0]
            try:
                case = json.loads(bytes(mm[12:12 + n]).decode())
            except Exception:
                case = {'undecodable_case_prefix': bytes(mm[12:12 + min(n, 2000)]).decode('latin1')}
            try:
                os.killpg(child, signal.SIGKILL)
            except Exception:
                pass
            msg = ('the implementation did not return on this input and could not be interrupted (no answer for %d s: '
                   'a loop that never gives the interpreter back, or a lock held for ever); the run was ended by the '
                   'supervising process' % SUPERVISOR_LIMIT)
            p = write_replay(rid, dict(property=rid, case=case, impl={'hang': True}, oracle=msg, tier=tier))
            print('VIOLATION property=%s replay=%s' % (rid, p))
            print('%s tier=%s -> VIOLATION (%s)' % (rid, tier, msg))
            sys.stdout.flush()
            os._exit(1)
        time.sleep(0.5)


def run_impl_guarded(mod, case, limit=20, retry=False):
    if POISONED[0]:
        return {'hang': True, 'not_run': 'an earlier case is still running on an abandoned thread'}
    signal.signal(signal.SIGALRM, _alarm)
    # repeating: should one CaseTimeout be swallowed (a bare `except:`, a `finally` that loops), the next one follows
    signal.setitimer(signal.ITIMER_REAL, limit if (HANGS[0] == 0 or retry) else 4, 1.0)
    CALLS[0] += 1
    _beat(case)
    try:
        try:
            if CALLS[0] % THREAD_EVERY == 0 and not retry and not getattr(mod, 'MAIN_THREAD_ONLY', False) \
                    and os.environ.get('VERIF_NO_WORKER') != '1':
                return _in_worker(mod, case)
            return mod.run_impl(case)
        except CaseTimeout:
            HANGS[0] += 1
            return {'hang': True}
        except Exception as e:  # the harness itself must not die on an unexpected escape
            return {'escaped': type(e).__name__, 'msg': str(e)[:200]}
        finally:
            signal.setitimer(signal.ITIMER_REAL, 0)
            _beat(None)
    except CaseTimeout:         # a tick of the repeating timer that arrived while the handlers above were running
        signal.setitimer(signal.ITIMER_REAL, 0)
        _beat(None)
        HANGS[0] += 1
        return {'hang': True}


def run_model(exe, encoded):
    """encoded: list of int lists -> list of int lists (or None on driver failure)"""
    inp = '\n'.join(' '.join(str(x) for x in e) for e in encoded) + '\n'
    try:
        r = subprocess.run(['bash', '-c', 'ulimit -s 4000000 2>/dev/null; exec "$0"', exe], input=inp,
                           capture_output=True, text=True, timeout=1800)
    except subprocess.TimeoutExpired:
        return None, 'driver timeout'
    if r.returncode != 0:
        return None, 'driver exit %s: %s' % (r.returncode, r.stderr[-500:])
    outs = [[int(t) for t in ln.split()] for ln in r.stdout.split('\n')[:len(encoded)]]
    if len(outs) != len(encoded):
        return None, 'driver produced %d lines for %d cases' % (len(outs), len(encoded))
    return outs, ''


def canon(x):
    return json.dumps(x, sort_keys=True, default=repr)


# --------------------------------------------------------------------------
# known findings
# --------------------------------------------------------------------------

def load_findings(pid):
    import glob
    paths = [os.path.join(ROOT, 'KNOWN_FINDINGS.jsonl')] + sorted(glob.glob(os.path.join(ROOT, 'fixes', '*.findings.jsonl')))
    out = []
    for path in paths:
        if not os.path.exists(path):
            continue
        for ln in open(path):
            ln = ln.strip()
            if ln and not ln.startswith('#'):
                e = json.loads(ln)
                if e.get('property') == pid and e.get('kind') == 'finding':
                    out.append(e)
    return out


def match_finding(mod, findings, case, what):
    preds = getattr(mod, 'PREDICATES', {})
    for e in findings:
        m = e.get('match', {})
        fn = preds.get(m.get('pred'))
        if fn is not None:
            try:
                if fn(case, what, m):
                    return e
            except Exception:
                pass
    return None


# --------------------------------------------------------------------------
# main
# --------------------------------------------------------------------------

def shrink_case(mod, case, still_fails, budget=300):
    sh = getattr(mod, 'shrink', None)
    if sh is None:
        return case
    n = 0
    progress = True
    while progress and n < budget:
        progress = False
        for cand in sh(case):
            n += 1
            if n >= budget:
                break
            try:
                if still_fails(cand):
                    case = cand
                    progress = True
                    break
            except Exception:
                continue
    return case


def write_replay(pid, payload):
    d = os.path.join(ROOT, 'replays')
    os.makedirs(d, exist_ok=True)
    h = hashlib.sha256(canon(payload).encode()).hexdigest()[:12]
    p = os.path.join(d, '%s-%s.json' % (pid, h))
    with open(p, 'w') as f:
        json.dump(payload, f, indent=1, sort_keys=True, default=repr)
    return p


def evaluate(mod, exe, cases, model_ok):
    """returns (records, driver_error). record = dict(case, impl, model, agree, fail)"""
    recs = []
    for c in cases:
        if HANGS[0] >= HANG_STOP or POISONED[0]:
            log('the implementation hung on %d cases%s: the remaining %d cases are not run'
                % (HANGS[0], ' (one on a worker thread that cannot be stopped)' if POISONED[0] else '', len(cases) - len(recs)))
            break
        obs = run_impl_guarded(mod, c)
        if obs == {'hang': True} and not POISONED[0] and RETRIED[0] < 2:
            # a wall-clock limit is not yet a verdict (a loaded machine, a large enumeration batch): the first two
            # cases that hit it are run again, on the main thread, with a generous limit
            RETRIED[0] += 1
            HANGS[0] -= 1
            obs = run_impl_guarded(mod, c, limit=RETRY_LIMIT, retry=True)
            log('note: a case hit the %d s limit and was run again with %d s: %s'
                % (20, RETRY_LIMIT, 'no answer either' if obs == {'hang': True} else 'answered'))
        recs.append(dict(case=c, impl=obs, model=None, agree=None, fail=None, enc=None, raw=None))
    derr = ''
    if model_ok and exe:
        encs = [mod.encode(r['case']) for r in recs]
        outs, derr = run_model(exe, encs)
        if outs is not None:
            for r, e, o in zip(recs, encs, outs):
                r['enc'] = e
                r['raw'] = o
                try:
                    r['model'] = mod.decode(o, r['case'])
                except Exception as ex:
                    r['model'] = {'undecodable': str(ex)[:100], 'raw': o[:20]}
                cmp_impl = mod.project(r['impl'], r['case']) if hasattr(mod, 'project') else r['impl']
                if hasattr(mod, 'same'):
                    r['agree'] = bool(mod.same(cmp_impl, r['model'], r['case']))
                else:
                    r['agree'] = canon(cmp_impl) == canon(r['model'])
    for r in recs:
        try:
            r['fail'] = mod.oracle(r['case'], r['impl'])
        except Exception as ex:
            r['fail'] = 'oracle crashed: %s: %s' % (type(ex).__name__, ex)
        if isinstance(r['impl'], dict) and r['impl'].get('not_run'):
            r['fail'] = None            # not an observation of this input
        elif not r['fail'] and isinstance(r['impl'], dict) and r['impl'].get('hang') is True and len(r['impl']) == 1 \
                and not getattr(mod, 'JUDGES_HANG', False):
            # no answer at all: whatever the property says about this input cannot hold
            r['fail'] = 'the implementation did not return on this input within the time limit (hang)'
    return recs, derr


def main():
    ap = argparse.ArgumentParser()
    ap.add_argument('pid')
    ap.add_argument('--tier', default=os.environ.get('VERIF_TIER', 'quick'), choices=['quick', 'thorough'])
    ap.add_argument('--replay')
    ap.add_argument('--with', dest='subs', action='append', default=[], help='sub-check module(s) whose result and evidence are merged into this one')
    ap.add_argument('--no-coq', action='store_true', help='(development) skip the Coq build')
    args = ap.parse_args()
    pid = args.pid
    t0 = time.time()
    seed = int(os.environ.get('VERIF_SEED', '20260930'))
    mod = importlib.import_module('props.%s' % pid)
    rid = getattr(mod, 'PROPERTY', pid)   # id used in VIOLATION / KNOWN-FINDING lines (sub-checks report their property)
    rng = random.Random('%s/%s' % (seed, pid))
    findings = load_findings(pid)
    if os.environ.get('VERIF_NO_SUPERVISOR') != '1':
        supervise(rid, args.tier)

    if args.replay:
        with open(args.replay) as f:
            payload = json.load(f)
        case = payload.get('case')
        if case is None:
            print('replay file names a broken obligation, not an input: %s' % payload.get('broken'))
            return 0
        obs = run_impl_guarded(mod, case)
        fail = mod.oracle(case, obs)
        print(json.dumps(dict(case=case, impl=obs, oracle=fail), indent=1, default=repr))
        if fail:
            print('VIOLATION property=%s replay=%s' % (rid, args.replay))
            return 1
        return 0

    # ---- cases (generated before the build so that the locked section stays short)
    n = mod.N_THOROUGH if args.tier == 'thorough' else mod.N_QUICK
    cases = list(mod.corpus())
    cpath = os.path.join(ROOT, 'corpus', '%s.jsonl' % pid)
    if os.path.exists(cpath):
        for ln in open(cpath):
            if ln.strip():
                cases.append(json.loads(ln))
    n_corpus = len(cases)
    cases.extend(mod.gen(rng, n))
    exhaustive = False
    if args.tier == 'thorough' and hasattr(mod, 'thorough'):
        extra = list(mod.thorough())
        cases.extend(extra)
        exhaustive = bool(extra) and getattr(mod, 'THOROUGH_EXHAUSTIVE', False)

    # ---- 1-3: Coq + driver + in-Coq evaluation of the first cases, under the lock
    vm_ok, vm_n, vm_msg = True, 0, ''
    exe = None
    if ALT:
        sync_alt()
    with CoqLock():
        if args.no_coq:
            cb = dict(gen_ok=True, model_ok=True, obligations=0, discharged=0, theorems=[], assumptions={},
                      errors=[], checker_cmd='(skipped)')
        else:
            cb = coq_build(pid, mod)
        audit = audit_sources()
        if audit:
            cb['errors'].append('audit: forbidden declarations: %s' % audit[:5])
        if cb['model_ok']:
            exe0, msg = build_drivers.build(pid, getattr(mod, 'COQ_CORR', None))
            if exe0 is None:
                cb['model_ok'] = False
                cb['errors'].append('driver: ' + msg)
            else:
                import shutil
                import tempfile
                tmpd = tempfile.mkdtemp(prefix='verif_drv_')
                exe = os.path.join(tmpd, 'drv_%s' % pid)
                shutil.copy2(exe0, exe)
        if exe and not args.no_coq:
            k = getattr(mod, 'VM_CASES', 40)
            head = cases[:k]
            if n_corpus < k:
                pass
            encs = [mod.encode(c) for c in head]
            outs, derr0 = run_model(exe, encs)
            if outs is None:
                cb['errors'].append('driver run: ' + derr0)
            else:
                vm_ok, vm_n, vm_msg = vm_cross_check(pid, mod, list(zip(encs, outs)))
                if not vm_ok:
                    cb['errors'].append('extracted model and vm_compute disagree (or cases file failed): ' + vm_msg)
    proofs_ok = (cb['gen_ok'] and not audit and cb['obligations'] > 0
                 and cb['discharged'] == cb['obligations'] and not cb['errors']) or args.no_coq

    # ---- 4-5: run implementation, extracted model, oracle
    recs, derr = evaluate(mod, exe, cases, cb['model_ok'])
    if exe:
        import shutil
        shutil.rmtree(os.path.dirname(exe), ignore_errors=True)
    if derr:
        cb['errors'].append('driver run: ' + derr)
    disagreements = [r for r in recs if r['agree'] is False]
    failures = [r for r in recs if r['fail']]
    corr_ok = cb['model_ok'] and not derr and not disagreements

    # ---- search with an enlarged budget when a tie or an obligation is broken
    searched = 0
    if (not proofs_ok or not corr_ok or not vm_ok) and not failures:
        log('obligation/correspondence broken -> searching for a failing input with an enlarged budget')
        extra = list(mod.gen(random.Random('%s/%s/search' % (seed, pid)), n * 5))
        if hasattr(mod, 'thorough'):
            extra.extend(mod.thorough())
        t_search = time.time()
        for c in extra:
            if time.time() - t_search > (600 if args.tier == 'thorough' else 150):
                break
            if POISONED[0]:
                break
            searched += 1
            obs = run_impl_guarded(mod, c)
            if isinstance(obs, dict) and obs.get('not_run'):
                break
            f = mod.oracle(c, obs)
            if f:
                failures.append(dict(case=c, impl=obs, model=None, agree=None, fail=f))
                break

    # ---- 6: known findings
    known_hits = {}
    new_failures = []
    for r in failures:
        e = match_finding(mod, findings, r['case'], r['fail'])
        if e is not None:
            known_hits.setdefault(e['id'], (e, r))
        else:
            new_failures.append(r)
    # disagreements that fall entirely inside a known finding are not model/code drift to report
    unexplained_dis = [r for r in disagreements if match_finding(mod, findings, r['case'], 'disagreement') is None]
    corr_ok = cb['model_ok'] and not derr and not unexplained_dis

    # ---- 7: report
    lines = []
    rc = 0
    for fid, (e, r) in sorted(known_hits.items()):
        lines.append('KNOWN-FINDING: property=%s %s (%s)' % (rid, e['what'], fid))
    stale = [e['id'] for e in findings if e['id'] not in known_hits and e.get('reproduce', True)]
    for s in stale:
        log('note: known finding %s did not reproduce in this run' % s)
    n_viol = 0
    if new_failures:
        seen = set()
        for r in new_failures:
            sig = re.sub(r'[0-9]+', '#', str(r['fail']))[:80]
            if sig in seen:
                continue
            seen.add(sig)
            if len(seen) > 3:
                break

            def still(c, _sig=sig):
                o = run_impl_guarded(mod, c)
                if isinstance(o, dict) and o.get('not_run'):
                    return False
                f = mod.oracle(c, o)
                if not f and isinstance(o, dict) and o.get('hang') is True and len(o) == 1:
                    f = 'hang'
                return bool(f) and match_finding(mod, findings, c, f) is None
            if POISONED[0]:
                small, obs, orc = r['case'], r['impl'], r['fail']
            else:
                small = shrink_case(mod, r['case'], still)
                obs = run_impl_guarded(mod, small)
                orc = None if (isinstance(obs, dict) and obs.get('not_run')) else mod.oracle(small, obs)
                if not orc and isinstance(obs, dict) and obs.get('hang') is True and len(obs) == 1:
                    orc = 'the implementation did not return on this input within the time limit (hang)'
                if not orc:
                    # the re-run did not show the failure again (or could not be made): report what was observed
                    small, obs, orc = r['case'], r['impl'], r['fail']
            p = write_replay(pid, dict(property=pid, case=small, impl=obs, oracle=orc, first_complaint=r['fail'],
                                       seed=seed, tier=args.tier,
                                       broken=cb['errors'][:3], original_case=r['case']))
            lines.append('VIOLATION property=%s replay=%s' % (rid, p))
            n_viol += 1
        rc = 1
    elif not (proofs_ok and corr_ok and vm_ok):
        broken = list(cb['errors'])
        if unexplained_dis:
            d = unexplained_dis[0]
            broken.append('correspondence %s (model %s vs implementation) differs on case %s: impl=%s model=%s'
                          % (mod.COQ_CORR, mod.COQ_MODEL, canon(d['case'])[:600], canon(d['impl'])[:300], canon(d['model'])[:300]))
        if not broken:
            broken.append('obligations %d/%d discharged' % (cb['discharged'], cb['obligations']))
        p = write_replay(pid, dict(property=pid, case=None, broken=broken, theorems=cb['theorems'],
                                   disagreement=(dict(case=unexplained_dis[0]['case'], impl=unexplained_dis[0]['impl'],
                                                      model=unexplained_dis[0]['model']) if unexplained_dis else None),
                                   searched_inputs=searched + len(recs), seed=seed, tier=args.tier))
        lines.append('VIOLATION property=%s replay=%s no-failing-input-found' % (rid, p))
        n_viol += 1
        rc = 1

    # ---- evidence
    keys = {}
    dist = {}
    for r in recs:
        try:
            nt = bool(mod.nontrivial(r['case'], r['impl']))
        except Exception:
            nt = False
        if nt:
            keys[mod.key(r['case']) if hasattr(mod, 'key') else canon(r['case'])] = 1
        try:
            lab = mod.classify(r['case'], r['impl'])
        except Exception:
            lab = 'unclassified'
        dist[lab] = dist.get(lab, 0) + 1
    tb = ['Coq 8.16.1 kernel; vm_compute (Examples, refuted witnesses, in-Coq evaluation of correspondence cases); no native_compute']
    for name in cb['theorems']:
        axs = cb['assumptions'].get(name)
        if axs is None:
            tb.append('Print Assumptions %s: (not reached)' % name)
        elif not axs:
            tb.append('Print Assumptions %s: Closed under the global context' % name)
        else:
            tb.append('Print Assumptions %s: %s' % (name, '; '.join(axs)))
    for t, g in cb.get('skipped', []):
        tb.append('NOT APPLICABLE on this tree: theorem %s is about code translated from the source, and the translator '
                  'could not read that code (group %s): it is not counted; the property rests on the hand-written model '
                  'and the correspondence' % (t, g))
        log('note: %s not applicable on this tree (translator group %s failed closed)' % (t, g))
    tb.append('translator tools/gen_constants.py (constants of /repo -> coq/gen/Gen.v), fail-closed')
    tb.append('translator tools/gen_loops.py (statements of body_mixin._iter_body -> coq/gen/GenLoops.v), fail-closed')
    tb.append('extraction: ExtrOcamlBasic only (no Extract Constant / Extract Inductive of our own), OCaml 4.13.1, '
              'ocaml/driver_tail.ml; cross-checked against vm_compute on %d cases this run' % vm_n)
    tb.append('correspondence + oracle harness tools/props/%s.py on CPython %s' % (pid, sys.version.split()[0]))
    tb.extend(getattr(mod, 'TRUSTED', []))
    samples = []
    for r in recs[:2] + recs[n_corpus:n_corpus + 2]:
        samples.append(dict(case=r['case'], impl=r['impl'], model_agrees=r['agree']))
    samples = json.loads(json.dumps(samples, default=repr))
    ev = dict(
        property_id=pid, tier=args.tier, seed=seed, level='proof',
        coverage=dict(
            obligations=cb['obligations'], discharged=cb['discharged'] if not cb['errors'] or cb['discharged'] < cb['obligations'] else cb['discharged'],
            checker_cmd=cb['checker_cmd'] or 'coqc', trusted_base=tb, theorems=cb['theorems'],
            evaluations=len(recs) + searched, distinct_nontrivial=len(keys),
            rule=mod.RULE, samples=samples[:4],
            traces_validated_against_impl=sum(1 for r in recs if r['agree'] is not None),
            disagreements_checked=len(disagreements), known_finding_hits=sorted(known_hits),
            vm_compute_cross_checked=vm_n, corpus_cases=n_corpus, exhaustive=exhaustive,
            input_distribution=dist, errors=cb['errors'][:5]),
        assumptions=list(getattr(mod, 'ASSUMPTIONS', [])),
        wall_s=round(time.time() - t0, 2), violations=n_viol)
    # ---- sub-checks (e.g. C01p, the rule parser, for C01): run, report, merge evidence
    for sub in args.subs:
        r = subprocess.run([sys.executable, os.path.abspath(__file__), sub, '--tier', args.tier],
                           capture_output=True, text=True)
        for ln in r.stdout.split('\n'):
            if ln.startswith('VIOLATION') or ln.startswith('KNOWN-FINDING'):
                lines.append(ln)
        log(r.stdout.strip().split('\n')[-1] if r.stdout.strip() else 'sub-check %s produced no output' % sub)
        if r.returncode != 0:
            rc = 1
        try:
            with open(os.path.join(os.path.join(ALT, 'evidence') if ALT else os.path.join(ROOT, 'evidence'), '%s.json' % sub)) as f:
                sev = json.load(f)
            sc = sev['coverage']
            ev['coverage'].setdefault('subchecks', {})[sub] = dict(
                obligations=sc['obligations'], discharged=sc['discharged'], theorems=sc.get('theorems'),
                evaluations=sc['evaluations'], distinct_nontrivial=sc['distinct_nontrivial'], rule=sc['rule'],
                disagreements_checked=sc['disagreements_checked'], samples=sc['samples'][:2],
                input_distribution=sc.get('input_distribution'), violations=sev.get('violations'))
            ev['coverage']['obligations'] += sc['obligations']
            ev['coverage']['discharged'] += sc['discharged']
            ev['coverage']['evaluations'] += sc['evaluations']
            ev['coverage']['distinct_nontrivial'] += sc['distinct_nontrivial']
            ev['coverage']['traces_validated_against_impl'] += sc.get('traces_validated_against_impl', 0)
            ev['coverage']['theorems'] = ev['coverage']['theorems'] + (sc.get('theorems') or [])
            ev['coverage']['trusted_base'] += [t for t in sc['trusted_base'] if t.startswith('Print Assumptions') or t.startswith('modelled')]
            ev['violations'] += sev.get('violations', 0)
        except Exception as ex:
            rc = 1
            lines.append('VIOLATION property=%s replay=%s no-failing-input-found' % (
                rid, write_replay(pid, dict(property=pid, case=None, broken=['sub-check %s left no valid evidence: %s' % (sub, ex)]))))
    ev['wall_s'] = round(time.time() - t0, 2)
    # evidence of a run against another checkout must not replace the evidence of /repo
    evdir = os.path.join(ALT, 'evidence') if ALT else os.path.join(ROOT, 'evidence')
    if args.no_coq:
        # a development run without the proof obligations is not evidence for the property
        evdir = os.path.join(evdir, 'dev')
    os.makedirs(evdir, exist_ok=True)
    with open(os.path.join(evdir, '%s.json' % pid), 'w') as f:
        json.dump(ev, f, indent=1, sort_keys=True)
    for ln in lines:
        print(ln)
    print('%s tier=%s obligations=%d/%d cases=%d nontrivial=%d disagreements=%d oracle_failures=%d known=%d wall=%.1fs -> %s'
          % (pid, args.tier, cb['discharged'], cb['obligations'], len(recs), len(keys), len(disagreements),
             len(failures), len(known_hits), time.time() - t0, 'OK' if rc == 0 else 'VIOLATION'))
    for e in cb['errors'][:5]:
        log('error:', e[:1000])
    return rc


if __name__ == '__main__':
    try:
        _rc = main()
    except SystemExit:
        raise
    except BaseException as _e:       # noqa: B902 - fail closed: a harness that dies shows nothing about the property
        import traceback
        _tb = traceback.format_exc()
        sys.stderr.write(_tb)
        _pid = next((a for a in sys.argv[1:] if not a.startswith('-')), 'unknown')
        try:
            _rid = getattr(importlib.import_module('props.%s' % _pid), 'PROPERTY', _pid)
        except Exception:
            _rid = _pid
        _p = write_replay(_pid, dict(property=_rid, case=None,
                                     broken=['the check itself stopped with %s: %s — nothing is shown about the property '
                                             'on this tree' % (type(_e).__name__, str(_e)[:300]), _tb[-1500:]]))
        print('VIOLATION property=%s replay=%s no-failing-input-found' % (_rid, _p))
        sys.stdout.flush()
        _rc = 1
    sys.exit(_rc)
