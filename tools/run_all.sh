#!/bin/sh
# run every claimed check (tier = $1, default quick) and summarise
T=${1:-quick}
cd "$(dirname "$0")/.."
for p in $(/venv/bin/python -c "import json;print(' '.join(c['property_id'] for c in json.load(open('MANIFEST.json'))['checks']))"); do
  cmd=$(/venv/bin/python -c "import json,sys;print([c for c in json.load(open('MANIFEST.json'))['checks'] if c['property_id']=='$p'][0]['${T}_cmd'])")
  s=$(date +%s)
  out=$(sh -c "$cmd" 2>/dev/null); rc=$?
  e=$(date +%s)
  echo "$p rc=$rc $((e-s))s  $(echo "$out" | grep -c '^VIOLATION') violation(s) $(echo "$out" | grep -c '^KNOWN-FINDING') known  | $(echo "$out" | tail -1 | cut -c1-160)"
done
