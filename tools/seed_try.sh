#!/bin/sh
# usage: tools/seed_try.sh Cxx n [check-id] — verify staged seed n of Cxx against ./check <check-id|Cxx>, one summary line
P=$1; N=$2; C=${3:-$1}
r=$(/verif/tools/seed_verify.sh $C /verif/seeded/_staging/$P/change$N.diff /verif/seeded/_staging/$P/demo$N.py 2>&1)
echo "== $P change$N (check $C): $(echo "$r" | grep -c '^VIOLATION') viol; $(echo "$r" | grep -c 'no-failing-input-found') nfi; $(echo "$r" | grep 'tests:\|demo on\|APPLY' | tr '\n' ' ' | cut -c1-100) | $(echo "$r" | tail -1 | cut -c1-130)"
